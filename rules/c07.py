"""C07 - integrity checks reject corruption of what they protect (structural clauses)."""
import re
from .facts import op_local, Slice, place_fields, op_const
from .lib import (enum_switches, must_pass, bool_switches, copies_of, assigns_variant, result_local, is_discarded, awaited, receiver_fields_all)
from .c05 import enum_switches_through, flows_to_consumer

CRATES = None  # whole workspace

EXPLANATION = (
    "Static rules over the MIR of the whole workspace. Validators are DISCOVERED: every non-test function whose body computes a "
    "digest (md5::compute, Digest::finalize, hashlittle, Content/EncodingKey::from_data, or a workspace compute_*/calculate_* "
    "wrapper of those) and compares a value derived from it. R1: every validator that protects an object named by the property "
    "has a caller on a load path (a validator nobody calls protects nothing), and inside loader loops the validator lies on every "
    "iteration path. R2: at every call site the validator's failing edge cannot reach an accepting return (Ok/Some) - the result "
    "gates acceptance and is never discarded. R3: the buffer handed to the validator is the buffer that is parsed afterwards. "
    "R4: the comparison inside each validator is a full-width equality (no one-sided truncation, no prefix test). R5: in "
    "NgdpBytes::validate_with_hooks every path that reports `valid` for a value carrying a content key passes validate_content or "
    "the already-validated flag. R6: should_skip_validation implementations decide from the size argument only (no per-key memo). "
    "R7: ContentAddressedCache::{get,put}_validated serve/store only through the is_valid edge.")

ASSUMPTIONS = ["that each protected byte position is actually covered by the digest is value-level and not decided"]

DIG = re.compile(r"^md5::compute$|^md5::Context::(compute|finalize)$|\bDigest>?::finalize$|jenkins::hashlittle2?$|ContentKey::from_data$|EncodingKey::from_data$")
FEED = re.compile(r"^md5::Context::consume$|\bDigest>?::(update|chain_update)$|\bUpdate>?::update$|\bWrite>?::write_all$")
SERIALISER = re.compile(r"::(to_bytes|serialize|build|write_options|write_be|write_le|to_packed|to_vec_be)$")
RAW_BUF = re.compile(r"^&(mut )?\[u8\]$|^&?bytes::bytes::Bytes$|^&?alloc::vec::Vec<u8>$")
CMP = re.compile(r"\bPartialEq.*>?::(eq|ne)$|::eq$|::ne$|ct_eq$")

# validators that protect an object the property lists: (self type regex or None, item) -> what it protects
IN_SCOPE = [
    (r"encoding::index::IndexEntry", "verify", "encoding-table page"),
    (r"archive::index::IndexFooter", "is_valid", "archive-index footer"),
    (None, "deserialize", "LRU checkpoint file"),
    (r"index::update::UpdateEntry", "validate_hash_guard", "update-section entry"),
    (r"storage::local_header::LocalHeader", "validate_checksums", "local entry header"),
    (None, "validate_checksum", "V1 Ribbit response checksum"),
    (r"validation::Md5ValidationHooks", "validate_content", "content fetched by content key"),
]

CFG = {"floor_validators": 9}


def discover(prog):
    dig_fns = set()
    for b in prog.bodies.values():
        if any(DIG.search(c.name) for c in b.calls):
            dig_fns.add(b.root or b.id)

    def is_dig(c):
        return bool(DIG.search(c.name)) or (c.id in dig_fns and re.search(r"(compute|calculate)_\w+$", c.name) is not None)

    out = {}
    for b in prog.bodies.values():
        digs = [c for c in b.calls if is_dig(c)]
        if not digs:
            continue
        cmps = []
        for c in b.calls:
            if CMP.search(c.name):
                for a in c.args:
                    l = op_local(a)
                    if l is None:
                        continue
                    sl = Slice(b, [l], transparent=True)
                    if any(d in sl.calls for d in digs):
                        cmps.append(("call", c))
                        break
        for i, j, s in b.stmts():
            r = s["r"]
            if r["k"] == "Bin" and r["op"] in ("Eq", "Ne"):
                for o in r["o"]:
                    l = op_local(o)
                    if l is None:
                        continue
                    sl = Slice(b, [l], transparent=True)
                    if any(d in sl.calls for d in digs):
                        cmps.append(("bin", (i, j, s)))
                        break
        if cmps:
            out[b.id] = {"body": b, "digs": digs, "cmps": cmps}
    return out


def scope_of(b, prog):
    root = prog.bodies.get(b.root) if b.root else b
    root = root or b
    for ty, item, what in IN_SCOPE:
        if root.item != item:
            continue
        if ty is None:
            if root.self_ty is None:
                return what
            continue
        if root.self_ty and re.search(ty, root.self_ty):
            return what
    return None


def accepting_blocks(b):
    return set(assigns_variant(b, "Ok")) | set(assigns_variant(b, "Some"))


def r1_r2(ctx, cfg):
    prog = ctx.prog
    ctx.rule("C07.R1", "every in-scope validator is called on a load path (and on every loop iteration of its loader)")
    ctx.rule("C07.R2", "the validator's failing edge cannot reach an accepting return; its result is never discarded")
    ctx.rule("C07.R3", "the validated buffer is the buffer parsed afterwards")
    vals = discover(prog)
    ctx.floor("C07.R1", len(vals), cfg["floor_validators"], "digest-comparing validators discovered")
    seen_scope = set()
    for vid in sorted(vals):
        v = vals[vid]
        b = v["body"]
        ctx.saw(b)
        root_id = b.root or b.id
        what = scope_of(b, prog)
        callers = [(s, how, c) for (s, how, c) in prog.callers.get(root_id, []) if c is not None and s != root_id and (prog.bodies[s].root or s) != root_id]
        # async-trait / dyn dispatch: callers reach the trait method, which fans out to this impl
        if what is None:
            ctx.info("validator %s (not in the property's list) has %d caller(s)" % (root_id, len(callers)))
            continue
        seen_scope.add(what)
        inline = (b.local_ty(0).startswith("core::option::Option") or "Result" in b.local_ty(0)) and b.argc >= 1 and \
            what in ("LRU checkpoint file",)
        if inline:
            # the loader validates inline: the comparison must gate its own accepting return
            gate_inline(ctx, b, v, what)
            continue
        if not callers:
            ctx.bad("C07.R1", [root_id, "never-called"],
                    "%s (protects: %s) has no caller outside tests: the stored checksum is never compared on any load path, so a "
                    "corrupted %s is accepted as good" % (root_id, what, what), b.loc())
            continue
        ctx.ok("C07.R1", [root_id, "called"], "has callers", b.loc(), sample={"validator": root_id, "protects": what,
               "callers": sorted({s for s, _, _ in callers})[:4]})
        for (s, how, c) in callers:
            cb = prog.bodies[s]
            ctx.saw(cb)
            ctx.call_sites += 1
            gate_call(ctx, cb, c, root_id, what)
    missing = [w for (_, _, w) in IN_SCOPE if w not in seen_scope]
    for w in missing:
        ctx.bad("C07.R1", ["anchor", w], "anchor-missing: no validator discovered for '%s'" % w)


def gate_call(ctx, cb, c, vid, what):
    acc = accepting_blocks(cb)
    rl, rbb = result_local(cb, c)
    ty = cb.local_ty(rl)
    key = [cb.id, vid.split("::")[-1]]
    fail_edges = []
    if ty == "bool":
        for (sbb, tt, ft) in bool_switches(cb, rl):
            fail_edges.append(ft)
        consumed = bool(fail_edges) or flows_to_consumer(cb, rl)
    else:
        for (ebb, m, other, via) in enum_switches_through(cb, rl):
            if 1 in m:
                fail_edges.append(m[1])
        consumed = bool(fail_edges) or flows_to_consumer(cb, rl)
        # Result<ValidationResult>: the Ok payload's is_valid decides
        if "ValidationResult" in ty:
            from .c12 import invalid_edges
            for (ebb, m, other, via) in enum_switches_through(cb, rl):
                if 0 in m:
                    for (tt, ft) in invalid_edges(cb, m[0]):
                        fail_edges.append(ft)
    if not consumed:
        ctx.bad("C07.R2", key + ["discarded"], "%s discards the verdict of %s: a corrupted %s is accepted" % (cb.id, vid, what), c.loc())
        return
    if not fail_edges:
        # the verdict is returned to the caller (wrapper): fine, the caller inherits the obligation
        ctx.ok("C07.R2", key + ["forwarded"], "verdict forwarded to the caller", c.loc(), nontrivial=False)
        return
    leak = [e for e in fail_edges if cb.reachable([e]) & acc]
    ctx.check(not leak, "C07.R2", key + ["fail-edge"], "failing edge cannot reach an accepting return",
              "%s: when %s reports a mismatch the function can still return Ok/Some: the corrupted %s is accepted as good" % (cb.id, vid, what),
              c.loc(), sample={"validator_call": c.loc(), "fail_edges": fail_edges, "accepting_blocks": sorted(acc)[:6]})
    # loop coverage: if the call sits in a loop, it must lie on every iteration path
    from .c12 import every_iteration
    loops = [n for n in cb.calls_matching(r"\bIterator>?::next$") if c.bb in cb.reachable(cb.succ[n.bb]) and n.bb in cb.reachable(cb.succ[c.bb])]
    if loops:
        nx = loops[-1]
        ctx.check(every_iteration(cb, nx, c.bb, bad_targets=acc), "C07.R1", key + ["every-iteration"], "validator runs for every element of the loader loop",
                  "%s: some path through the loader loop skips %s: that page/entry is accepted unverified" % (cb.id, vid), c.loc())
    else:
        # straight-line loader: every accepting return reachable from entry passes the validator, unless the path is one
        # on which the protected object does not exist (decided by a dominating test of the object's presence)
        pass
    # R3: same buffer
    data_args = [a for a in c.args[1:] if op_local(a) is not None] or [a for a in c.args[:1] if op_local(a) is not None]
    if data_args:
        roots = set()
        for a in data_args:
            sl = Slice(cb, [op_local(a)], transparent=re.compile(r"\bDeref>?::deref$|\bAsRef<.*>>?::as_ref$|\bBorrow<.*>>?::borrow$|Vec::<T, A>::as_slice$"))
            roots |= {l for l in sl.locals if cb.locals[l].get("u") or (1 <= l <= cb.argc)}
        after = cb.reachable(cb.succ[c.bb])
        used_after = False
        for x in cb.calls:
            if x.bb in after and x.bb != c.bb:
                for a in x.args:
                    l = op_local(a)
                    if l is not None and (Slice(cb, [l], transparent=re.compile(r"\bDeref>?::deref$|Cursor::<T>::new$|\bAsRef<.*>>?::as_ref$")).locals & roots):
                        used_after = True
        for i, j, s in cb.stmts():
            if i in after and any(op_local(o) in roots for o in s["r"].get("o", [])):
                used_after = True
        ctx.check(used_after or not roots, "C07.R3", key + ["same-buffer"], "validated buffer is used afterwards",
                  "%s validates a buffer that is not the one it goes on to parse/return" % cb.id, c.loc(),
                  sample={"validator_call": c.loc(), "buffer_roots": [cb.local_name(l) for l in sorted(roots)][:4]})


def gate_inline(ctx, b, v, what):
    acc = accepting_blocks(b)
    key = [b.id, "inline"]
    ok = False
    for kind, c in v["cmps"]:
        if kind == "call":
            is_ne = c.name.endswith("::ne") or c.full.endswith("::ne")
            for (sbb, tt, ft) in bool_switches(b, c.dest[0]):
                mismatch = tt if is_ne else ft
                if not (b.reachable([mismatch]) & acc) and all(b.dominates(sbb, a) for a in acc if a in b.reachable([sbb])):
                    ok = True
        else:
            (i, j, s) = c
            is_ne = s["r"]["op"] == "Ne"
            for (sbb, tt, ft) in bool_switches(b, s["p"][0]):
                mismatch = tt if is_ne else ft
                if not (b.reachable([mismatch]) & acc):
                    ok = True
    ctx.check(ok, "C07.R2", key + ["fail-edge"], "digest mismatch cannot reach the accepting return",
              "%s: the digest comparison no longer gates acceptance of the %s" % (b.id, what), b.loc(),
              sample={"loader": b.id, "comparisons": len(v["cmps"])})
    # every accepting return is dominated by the comparison
    cmp_blocks = set()
    for kind, c in v["cmps"]:
        cmp_blocks.add(c.bb if kind == "call" else c[0])
    ctx.check(must_pass(b, 0, acc, cmp_blocks), "C07.R1", key + ["always-compared"], "every accepting path passes the digest comparison",
              "%s can accept a %s without comparing its digest" % (b.id, what), b.loc())


TRUNC = re.compile(r"\bIndex<.*>>?::index$|::get$|::split_at$|::first_chunk$|::starts_with$|::take$")


def r4_full_width(ctx, cfg):
    ctx.rule("C07.R4", "validator comparisons are full-width equalities (no one-sided truncation / prefix test)")
    prog = ctx.prog
    vals = discover(prog)
    for vid in sorted(vals):
        v = vals[vid]
        b = v["body"]
        if scope_of(b, prog) is None:
            continue
        for n, (kind, c) in enumerate(v["cmps"]):
            if kind != "call":
                ctx.ok("C07.R4", [b.id, "cmp#%d" % n], "scalar equality", b.loc(), sample={"validator": b.id, "kind": "scalar Eq/Ne"})
                continue
            sides = []
            for a in c.args:
                l = op_local(a)
                if l is None:
                    sides.append(False)
                    continue
                sl = Slice(b, [l], transparent=re.compile(r"\bDeref>?::deref$|\bAsRef<.*>>?::as_ref$|\bIndex<.*>>?::index$|::get$|\bOption::<T>::(unwrap|expect|unwrap_or)$"))
                tr = any(TRUNC.search(x.name) and has_const_range(b, x) for x in sl.calls)
                sides.append(tr)
            ctx.check(sides.count(True) in (0, len(sides)), "C07.R4", [b.id, "cmp#%d" % n], "both sides compared at full / equal width",
                      "%s compares a truncated digest on one side only: corruption outside the compared prefix is not detected" % b.id,
                      c.loc(), sample={"validator": b.id, "cmp": c.name[-60:], "truncated_sides": sides})


def has_const_range(b, call):
    for a in call.args[1:]:
        l = op_local(a)
        if l is None:
            if op_const(a) is not None:
                return True
            continue
        sl = Slice(b, [l], transparent=None)
        for (bb, idx, st) in sl.stmts:
            r = st["r"]
            if r["k"] == "Agg" and r.get("variant", "").startswith("Range"):
                if all(op_const(o) is not None for o in r["o"]):
                    return True
    return False


def hooks_fast_path(ctx, rule, b=None, okb=None, ck_refs=None):
    """NgdpBytes::validate_with_hooks: before the content-key test, `valid` is reported only on the true edge of the test of the
    `validated` flag (edge-sensitive: `validated || <anything else>` shares the target block but adds a second way in)"""
    if b is None:
        bs = [x for x in ctx.prog.find(self_ty=r"\bNgdpBytes\b", item="validate_with_hooks", closure=True) if x.coroutine]
        if not ctx.anchor(rule, bs, "NgdpBytes::validate_with_hooks"):
            return
        b = bs[0]
        ctx.saw(b)
        okb = set(assigns_variant(b, "Ok"))
        ck_refs = {s["p"][0] for i, j, s in b.stmts() if s["r"]["k"] == "Ref" and "content_key" in place_fields(s["r"]["p"])}
    loads = [c for c in b.calls if re.search(r"\bAtomic(Bool)?(::<bool>)?::load$", c.name) and any("validated" in f for f in receiver_fields_all(b, c))]
    if ctx.anchor(rule, loads, "load of NgdpBytes.validated in validate_with_hooks"):
        succ2 = [list(v) for v in b.succ]
        for c in loads:
            rl, _ = result_local(b, c)
            for (sbb, tt, ft) in bool_switches(b, rl):
                succ2[sbb] = [x for x in succ2[sbb] if x != tt] if tt != ft else succ2[sbb]
        ck_blocks = set()
        for i, j, st in b.stmts():
            if st["r"]["k"] == "Discr" and ("content_key" in place_fields(st["r"]["p"]) or st["r"]["p"][0] in ck_refs):
                ck_blocks.add(i)
        leak0 = b.reachable([0], avoid=ck_blocks, succ=succ2) & okb
        ctx.check(not leak0, rule, [b.id, "fast-path-flag-only"], "the fast path reports valid only when the validated flag is set",
                  "validate_with_hooks can return a `valid` verdict before looking at the content key on a path that did not see the validated flag set "
                  "(an extra disjunct such as `|| self.data.is_empty()`): such a value is served without ever being hashed against its key", b.loc(),
                  sample={"flag_loads": [c.loc() for c in loads]})


def r5_hooks(ctx, cfg):
    rule = "C07.R5"
    ctx.rule(rule, "validate_with_hooks: a value carrying a content key is reported valid only through validate_content or the validated flag")
    bs = [b for b in ctx.prog.find(self_ty=r"\bNgdpBytes\b", item="validate_with_hooks", closure=True) if b.coroutine]
    if not ctx.anchor(rule, bs, "NgdpBytes::validate_with_hooks"):
        return
    b = bs[0]
    ctx.saw(b)
    vc = b.calls_matching(r"ValidationHooks>?::validate_content$")
    sk = b.calls_matching(r"ValidationHooks>?::should_skip_validation$")
    if not ctx.anchor(rule, vc, "validate_content call in validate_with_hooks"):
        return
    okb = set(assigns_variant(b, "Ok"))
    # the content-key-present region: blocks dominated by the Some edge of the `content_key` test
    some_edges = []
    ck_refs = {s["p"][0] for i, j, s in b.stmts() if s["r"]["k"] == "Ref" and "content_key" in place_fields(s["r"]["p"])}
    for i, j, s in b.stmts():
        if s["r"]["k"] == "Discr" and ("content_key" in place_fields(s["r"]["p"]) or s["r"]["p"][0] in ck_refs):
            for bi, blk in enumerate(b.blocks):
                t = blk["t"]
                if t["k"] == "Switch" and op_local(t["d"]) == s["p"][0]:
                    for vv, tg in t["v"]:
                        if int(vv) == 1:
                            some_edges.append(tg)
                    if not any(int(vv) == 1 for vv, tg in t["v"]):
                        some_edges.append(t["o"])
    if not ctx.anchor(rule, some_edges, "test of NgdpBytes.content_key in validate_with_hooks"):
        return
    hooks_fast_path(ctx, rule, b, okb, ck_refs)
    vcb = {c.bb for c in vc}
    for e in some_edges:
        leak = b.reachable([e], avoid=vcb) & okb
        if leak and sk:
            # which skip edges cause it
            for s in sk:
                rl, _ = result_local(b, s)
                for (sbb, tt, ft) in bool_switches(b, rl):
                    if b.reachable([tt], avoid=vcb) & okb:
                        ctx.bad(rule, [b.id, "skip-edge"],
                                "validate_with_hooks reports `valid` without hashing when the hooks' should_skip_validation() says so: a value "
                                "with a content key is served unverified (Md5ValidationHooks skips everything above 100 MB)", s.loc())
                        leak = leak - (b.reachable([tt], avoid=vcb) & okb)
        ctx.check(not leak, rule, [b.id, "key-present-valid"], "valid verdict for a keyed value passes validate_content",
                  "validate_with_hooks can report `valid` for a value that carries a content key without calling validate_content", b.loc(),
                  sample={"some_edge": e, "validate_content": [c.loc() for c in vc]})
    # after validate_content: invalid edge must not reach Ok
    from .c12 import invalid_edges
    for c in vc:
        rl, _ = result_local(b, c)
        for (ebb, m, other, via) in enum_switches_through(b, rl):
            if 0 in m:
                for (tt, ft) in invalid_edges(b, m[0]):
                    ctx.check(not (b.reachable([ft]) & okb), rule, [b.id, "invalid-edge"], "invalid verdict becomes Err",
                              "validate_with_hooks turns an `is_valid == false` verdict into Ok", c.loc())
    # the validated flag is set only on verified / key-less paths (known: also on the skip path)
    return


def r6_skip_pure(ctx, cfg):
    rule = "C07.R6"
    ctx.rule(rule, "should_skip_validation decides from the size argument only (no per-key / historical state)")
    impls = [b for b in ctx.prog.bodies.values() if b.item == "should_skip_validation" and b.coroutine and b.trait and b.trait.endswith("ValidationHooks")]
    ctx.floor(rule, len(impls), 1, "impls of ValidationHooks::should_skip_validation")
    for b in sorted(impls, key=lambda x: x.id):
        ctx.saw(b)
        delegates = b.calls_matching(r"ValidationHooks>?::should_skip_validation$")
        if delegates:
            ctx.ok(rule, [b.id, "delegates"], "delegates to the wrapped hooks", b.loc(), sample={"impl": b.id, "delegates": True})
            continue
        # return value slice
        from .lib import return_holders
        hs = return_holders(b)
        sl = Slice(b, list(hs), transparent=True)
        state = [f for f in sl.fields if f and f[0].startswith("upvar:self")]
        reads_self = any(f for f in state if len(f) > 1) or any(re.search(r"RwLock|Mutex|DashMap|HashMap|HashSet|Atomic", c.name) for c in sl.calls)
        # any lock / map access anywhere in the body is history-dependent too
        hist = [c for c in b.calls if re.search(r"RwLock|Mutex|DashMap|DashSet|HashMap|HashSet|BTreeMap|BTreeSet|Atomic\w*::.*load", c.name) and not c.expn]
        # control dependence: a branch whose condition derives from a field of the hooks object decides from remembered state just as
        # well as a returned value does (`if self.verified.contains(key) { return true }`)
        for bb_ in sorted(b.live_blocks()):
            t_ = b.blocks[bb_]["t"]
            if t_["k"] != "Switch" or t_.get("x") or op_local(t_["d"]) is None:
                continue
            sl_ = Slice(b, [op_local(t_["d"])], transparent=True)
            st_ = [f for f in sl_.fields if f and f[0].startswith("upvar:self") and len(f) > 1]
            if st_:
                state = state + st_
                reads_self = True
        ctx.check(not reads_self and not hist, rule, [b.id, "pure-of-size"], "depends on the size argument and constants only",
                  "%s consults per-instance state (%s): a verdict remembered from an earlier validation lets later same-size corruption of the "
                  "backing store through unverified" % (b.id, [c.name.split("::")[-1] for c in hist][:3] or [".".join(f) for f in state][:3]), b.loc(),
                  sample={"impl": b.id, "fields_read": [".".join(f) for f in sl.fields][:5]})


def r7_content_cache(ctx, cfg):
    rule = "C07.R7"
    ctx.rule(rule, "ContentAddressedCache::{get,put}_validated serve/store only through the is_valid edge")
    from .c12 import invalid_edges, ok_some_blocks
    for item in ("get_validated", "put_validated"):
        bs = [b for b in ctx.prog.find(self_ty=r"\bContentAddressedCache\b", item=item, closure=True) if b.coroutine]
        if not ctx.anchor(rule, bs, "ContentAddressedCache::%s" % item):
            continue
        b = bs[0]
        ctx.saw(b)
        vc = b.calls_matching(r"validate_content$")
        if not ctx.anchor(rule, vc, "validate_content call in %s" % item):
            continue
        c = vc[0]
        rl, _ = result_local(b, c)
        if item == "get_validated":
            sink = set(ok_some_blocks(b))
            what = "returns Ok(Some(data))"
        else:
            sink = {x.bb for x in b.calls_matching(r"AsyncCache>?::put$|AsyncCache<.*>>::put$")}
            what = "stores the data"
        if not ctx.anchor(rule, sink, "serving/storing site in %s" % item):
            continue
        sws = enum_switches_through(b, rl)
        if not ctx.anchor(rule, sws, "handling of validate_content's result in %s" % item):
            continue
        for (ebb, m, other, via) in sws:
            if 1 in m:
                ctx.check(not (b.reachable([m[1]]) & sink), rule, [b.id, "err-edge"], "validation error does not serve/store",
                          "%s %s although validate_content returned an error" % (item, what), c.loc())
            if 0 in m:
                iv = invalid_edges(b, m[0])
                if ctx.anchor(rule, iv, "`is_valid` test in %s" % item):
                    for (tt, ft) in iv:
                        ctx.check(not (b.reachable([ft]) & sink), rule, [b.id, "invalid-edge"], "invalid content is not served/stored",
                                  "%s %s on the `is_valid == false` edge: bytes whose MD5 differs from the requested content key are "
                                  "returned/cached as good" % (item, what), c.loc(), sample={"false_edge": ft, "sink_blocks": sorted(sink)})
        # the served data is the validated data
        if item == "get_validated":
            pass


def r8_prevalidated(ctx, cfg):
    """who may mint a value that is already marked validated for a content key: the constructors are discovered (an NgdpBytes
    literal whose `validated` field is AtomicBool::new(true) and whose content_key is not the constant None); every call site in
    library code must sit behind a successful validate_content in the same body"""
    rule = "C07.R8"
    ctx.rule(rule, "a pre-validated NgdpBytes (validated = true with a content key) is minted only behind a successful validate_content: "
                   "serving paths wrap what they read as unvalidated and let validate_with_hooks hash it")
    adt = [a for a in ctx.prog.adts.values() if a["name"].endswith("validation::NgdpBytes")]
    if not ctx.anchor(rule, adt, "struct NgdpBytes"):
        return
    ctors = []
    for b in ctx.prog.bodies.values():
        if b.krate != "cascette_cache":
            continue
        for i, j, st in b.stmts():
            r = st["r"]
            if r["k"] == "Agg" and r.get("ak") == "adt" and r["adt"].endswith("validation::NgdpBytes") and "validated" in r.get("fields", []):
                fi = r["fields"].index("validated")
                ci = r["fields"].index("content_key") if "content_key" in r["fields"] else None
                vo = r["o"][fi]
                vl = op_local(vo)
                true_init = False
                if vl is not None:
                    sl = Slice(b, [vl], transparent=re.compile(r"\bAtomic(Bool)?(::<bool>)?::new$"))
                    true_init = any(o.get("ty") == "bool" and "v" in o and int(o["v"]) == 1 for o in sl.consts)
                key_none = False
                if ci is not None:
                    ko = r["o"][ci]
                    kl = op_local(ko)
                    if kl is not None:
                        ks = Slice(b, [kl], transparent=None)
                        key_none = any(o.get("variant") == "None" for o in ks.consts) and not ks.args
                if true_init and not key_none:
                    ctors.append(b)
    if not ctx.anchor(rule, ctors, "constructor of a pre-validated keyed NgdpBytes (from_validated_bytes)"):
        return
    names = {b.id for b in ctors}
    n = 0
    for b in ctx.prog.bodies.values():
        if not b.krate.startswith("cascette_"):
            continue
        for c in b.calls:
            if c.id in names:
                n += 1
                ctx.saw(b)
                ctx.call_sites += 1
                vc = [x for x in b.calls if re.search(r"ValidationHooks>?::validate_content$|\bvalidate_content$|\bContentKey::verify$", x.name)]
                behind = False
                for x in vc:
                    rl, _ = result_local(b, x)
                    for (ebb, m, other, via) in enum_switches_through(b, rl):
                        if 0 in m and b.dominates(m[0], c.bb):
                            behind = True
                ctx.check(behind, rule, [b.id, "minted-behind-validation"], "pre-validated value minted behind a successful validation",
                          "%s wraps bytes with %s (validated = true for a content key) without having validated them in this function: "
                          "validate_with_hooks takes its already-validated fast path and the bytes actually read are never hashed - a corrupted "
                          "backing file or a promoted bad copy is served as verified" % (ctx._stable(b.id), c.name.split("::")[-1]), c.loc())
    ctx.info("C07.R8: %d constructor(s) of pre-validated keyed values, %d call site(s) in library code" % (len(ctors), n))


def digest_inputs(b, d):
    """operands whose bytes a digest call covers: its own data arguments, or - for an incremental context - the data arguments
    of every feed call on the same context"""
    if re.search(r"Context::(compute|finalize)$|Digest>?::finalize$", d.name):
        recv = op_local(d.args[0]) if d.args else None
        if recv is None:
            return []
        base = Slice(b, [recv], transparent=None).locals
        out = []
        for c in b.calls:
            if FEED.search(c.name) and len(c.args) >= 2 and op_local(c.args[0]) is not None:
                if Slice(b, [op_local(c.args[0])], transparent=None).locals & base:
                    out.append(c.args[1])
        return out
    return list(d.args)


def r9_hashed_bytes(ctx, cfg):
    """validators that are handed the stored bytes hash THOSE bytes: a digest over a re-serialisation of the parsed value protects
    only what the parser keeps (reserved / padding / non-canonical bytes fall out of the check)"""
    rule = "C07.R9"
    ctx.rule(rule, "in every validator that receives the raw stored bytes, each digest input derives from that buffer and passes no "
                   "workspace serialiser (to_bytes / serialize / build / write_*) on the way")
    vals = discover(ctx.prog)
    n = 0
    for vid in sorted(vals):
        v = vals[vid]
        b = v["body"]
        raw = [i for i in range(1, b.argc + 1) if RAW_BUF.search(b.local_ty(i) or "")]
        if not raw or b.root:
            continue
        for k, d in enumerate(v["digs"]):
            ins = digest_inputs(b, d)
            if not ins:
                continue
            reach_raw = False
            sers = []
            for o in ins:
                l = op_local(o)
                if l is None:
                    continue
                sl = Slice(b, [l], transparent=True)
                if sl.args & set(raw):
                    reach_raw = True
                sers += [c for c in sl.calls if SERIALISER.search(c.name) and c.name.startswith("cascette_")]
            if not reach_raw:
                continue  # this digest is over something else (a key, a constant)
            n += 1
            ctx.saw(b)
            ctx.check(not sers, rule, [b.id, "raw-bytes-hashed", d.name.split("::")[-1]], "the digest covers the stored bytes themselves",
                      "%s hashes the output of %s instead of the bytes it was given: whatever the parser normalises or drops (reserved bytes, padding, "
                      "non-canonical encodings) is no longer covered, so corruption there is accepted" % (ctx._stable(b.id), sers[0].name if sers else ""),
                      d.loc(), sample={"validator": b.id, "digest": d.name, "inputs": len(ins)})
    ctx.floor(rule, n, cfg.get("r9_floor", 3), "digests over a raw input buffer in validators")


def r10_skipped_only_when_absent(ctx, cfg=None, rule="C07.R10"):
    """a checksum that travels with the data (V1 Ribbit epilogue) is optional on the wire; when it is there it is checked. The only
    way round the validator is the None edge of the test of the extracted checksum - no other condition (a signature part being
    present, a size, a flag) may skip it"""
    ctx.rule(rule, "every path from entry to an accepting return of a V1-MIME parser passes validate_checksum or the None edge of the "
                   "extracted checksum (edge-sensitive)")
    n = 0
    for b in ctx.prog.bodies.values():
        if b.krate != "cascette_protocol" or b.root:
            continue
        vs = [c for c in b.calls if re.search(r"::validate_checksum$", c.name) and c.bb in b.live_blocks()]
        if not vs:
            continue
        ctx.saw(b)
        v = vs[0]
        # the Option the expected value is taken from
        opt = set()
        if len(v.args) > 1 and op_local(v.args[1]) is not None:
            sl = Slice(b, [op_local(v.args[1])], transparent=re.compile(r"\bDeref>?::deref$|\bAsRef<.*>>?::as_ref$|String::as_str$"))
            for pl in sl.places:
                if len(pl) > 1 and any(isinstance(e, dict) and e.get("d") == "Some" for e in pl[1:]):
                    opt |= set(copies_of(b, pl[0]))
        if not ctx.anchor(rule, opt, "Option holding the extracted checksum in %s" % b.id):
            continue
        succ2 = [list(x) for x in b.succ]
        cut = 0
        for o in sorted(opt):
            for (sbb, m, other, via) in enum_switches(b, o, through_try=False):
                none_t = m.get(0, other if 1 in m else None)
                if none_t is not None and none_t != m.get(1):
                    succ2[sbb] = [x for x in succ2[sbb] if x != none_t]
                    cut += 1
        if not ctx.anchor(rule, cut, "test of the extracted checksum in %s" % b.id):
            continue
        n += 1
        acc = accepting_blocks(b)
        leak = b.reachable([0], avoid={x.bb for x in vs}, succ=succ2) & acc
        ctx.check(not leak, rule, [b.id, "checked-whenever-present"], "a present checksum is always validated",
                  "%s can accept a response that carries a checksum without validating it (some condition other than the checksum's absence skips "
                  "validate_checksum): a corrupted answer is parsed, returned as Ok and cached" % ctx._stable(b.id), v.loc(),
                  sample={"validator_call": v.loc(), "none_edges_cut": cut})
    ctx.floor(rule, n, 2, "V1-MIME parsers with an optional epilogue checksum")


def r11_hash_is_read(ctx, cfg):
    """a stored checksum that is never read cannot fail: `read_exact` into a buffer whose length is provably 0 (a Vec::with_capacity(n) that was
    never resized - capacity is not length) reads nothing and succeeds, and a comparison over min(stored.len(), n) bytes then compares nothing"""
    from . import bounds
    rule = "C07.R11"
    ctx.rule(rule, "no read_exact into a buffer that E-bounds proves empty (Vec::with_capacity / Vec::new without resize)")
    n = 0
    for b in ctx.prog.bodies.values():
        if not b.krate.startswith("cascette_") or b.krate == "cascette_ribbit":
            continue
        rd = [c for c in b.calls if re.search(r"\bRead>?::read_exact$|AsyncReadExt>?::read_exact$", c.orig_name or c.name) and c.bb in b.live_blocks()]
        if not rd:
            continue
        try:
            a = bounds.Analysis(b)
        except RecursionError:
            continue
        n += len(rd)
        zr = getattr(a, "zero_reads", {})
        for c in rd:
            ctx.check(c.bb not in zr, rule, [b.id, "read-into-empty", c.bb if c.bb not in zr else "x"], "the buffer has a length",
                      "%s calls read_exact on a buffer whose length is 0 at that point (allocated with Vec::with_capacity / Vec::new and never resized): nothing is "
                      "read and the call succeeds - a checksum or field loaded this way is empty, and a comparison bounded by its length always passes" %
                      ctx._stable(b.id), c.loc())
    ctx.floor(rule, n, 40, "read_exact call sites analysed")


def r12_every_item_validated(ctx, cfg):
    """a validator applied to the items of a collection through an iterator adaptor must gate on EVERY item: `all(|x| verify(x))`, or
    `any(|x| !verify(x))` for the failing case. `any(|x| verify(x))` accepts the whole collection as soon as one item is intact"""
    from .lib import forward_calls, return_holders
    rule = "C07.R12"
    ctx.rule(rule, "an in-scope validator called inside an iterator closure is quantified over all items (all / negated any), never `any(valid)`")
    vals = discover(ctx.prog)
    vnames = {(v["body"].root or vid) for vid, v in vals.items() if scope_of(v["body"], ctx.prog)}
    n = 0
    for b in ctx.prog.bodies.values():
        if not b.root or not b.krate.startswith("cascette_") or b.parent not in ctx.prog.bodies:
            continue
        vc = [c for c in b.calls if c.id in vnames and c.bb in b.live_blocks()]
        if not vc:
            continue
        pb = ctx.prog.bodies[b.parent]
        adaptors = []
        for i, j, st in pb.stmts():
            r = st["r"]
            if r["k"] == "Agg" and r.get("body") == b.id and len(st["p"]) == 1:
                adaptors = [x.name.split("::")[-1] for x in forward_calls(pb, st["p"][0]) if re.search(r"\bIterator>?::(any|all|find|position|filter|skip_while|take_while)$", x.orig_name or x.name)]
        if not adaptors:
            continue
        n += 1
        ctx.saw(b)
        rh = return_holders(b)
        for c in vc:
            direct = c.dest[0] in rh or any(l in rh for l in copies_of(b, c.dest[0]))
            negated = any(st["r"]["k"] == "Un" and st["r"]["op"] == "Not" and op_local(st["r"]["o"][0]) in set(copies_of(b, c.dest[0])) and st["p"][0] in rh for i, j, st in b.stmts())
            bad = ("any" in adaptors and direct and not negated) or ("all" in adaptors and negated and not direct)
            ctx.check(not bad, rule, [b.id, "quantified-over-all", c.name.split("::")[-1]], "the validator gates every item",
                      "%s runs %s inside `%s(..)` and returns its verdict %s: the collection is accepted as soon as ONE item validates, so corrupting "
                      "some but not all items (pages) passes" % (ctx._stable(b.id), c.name.split("::")[-1], adaptors[0], "negated" if negated else "as is"), c.loc())
    ctx.info("C07.R12: %d iterator closure(s) call an in-scope validator" % n)


HOOKS_EXEMPT = {
    "NoOpValidationHooks": "the documented opt-out ('always returns valid ... only in trusted environments'); choosing it is the caller's decision, not a validator",
}


def r13_hooks_hash(ctx, cfg):
    """the verdict of a ValidationHooks implementation is what the caches act on: every implementation of validate_content / validate_on_get
    either hashes the data (a digest call in the body) or hands the question to another implementation of the same trait - on every path to a return"""
    rule = "C07.R13"
    ctx.rule(rule, "every path through an implementation of ValidationHooks::validate_content / validate_on_get passes a digest computation or a call "
                   "of ValidationHooks::validate_content / validate_on_get (NoOpValidationHooks, the documented opt-out, excepted)")
    impls = [b for b in ctx.prog.bodies.values() if b.item in ("validate_content", "validate_on_get") and b.coroutine
             and ((b.trait or "").endswith("ValidationHooks") or re.search(r"\bValidationHooks::validate_(content|on_get)\b", b.id))]
    ctx.floor(rule, len(impls), 6, "implementations of ValidationHooks::validate_content / validate_on_get")
    for b in sorted(impls, key=lambda x: x.id):
        ctx.saw(b)
        ex = [k for k in HOOKS_EXEMPT if re.search(r"\b%s\b" % k, b.self_ty or b.id)]
        if ex:
            ctx.ok(rule, [b.id, "exempt"], "exempt: " + HOOKS_EXEMPT[ex[0]], b.loc(), nontrivial=False)
            continue
        through = {c.bb for c in b.calls if DIG.search(c.name) or re.search(r"ValidationHooks>?::validate_(content|on_get)$", c.orig_name or c.name)
                   or re.search(r"ValidationHooks>?::validate_(content|on_get)$", c.name)}
        rets = set(b.return_blocks()) & b.live_blocks()
        from .lib import succ_without_constant_option_tests
        succ2 = succ_without_constant_option_tests(b)      # (#[async_trait]'s `if let Some(__ret) = None::<Ret> { return __ret }` prelude is dead code)
        good = bool(through) and bool(rets) and not (b.reachable([0], avoid=through, succ=succ2) & rets)
        ctx.check(good, rule, [b.id, "hash-or-delegate"], "every path hashes the data or delegates to another ValidationHooks implementation",
                  "%s can return a verdict on a path that neither computes a digest of the data nor asks another ValidationHooks implementation: whatever "
                  "that path answers (a placeholder check, a constant) is what get_validated / put_validated serve and store as verified content"
                  % ctx._stable(b.id), b.loc(), sample={"digest_or_delegate_blocks": sorted(through)})


def r14_guard_covers_record(ctx, cfg):
    """fixed-size records with a leading hash guard (update-section entries, residency entries): the guard is `hash(record[a..b])`. A byte the
    deserialiser reads at or beyond b, or between the guard field and a, can be corrupted without the guard noticing - writer and checker share the
    function, so every round-trip test still passes"""
    rule = "C07.R14"
    ctx.rule(rule, "for every `compute_hash_guard(record: &[u8; N])` that hashes record[a..b]: a is the width of the guard it returns, and every constant "
                   "offset the sibling from_bytes(&[u8; N]) reads lies below b")
    from . import bounds
    prog = ctx.prog
    gs = []
    for b in prog.bodies.values():
        if b.root or not b.self_ty or b.argc != 1 or not re.match(r"^&\[u8; \d+\]$", b.local_ty(1) or ""):
            continue
        if not any(re.search(r"jenkins::hashlittle2?$|^md5::compute$", c.name) for c in b.calls) or not re.match(r"^u(8|16|32|64)$", b.local_ty(0) or ""):
            continue
        gs.append(b)
    ctx.floor(rule, len(gs), 3, "hash functions over a fixed-size record")
    for g in sorted(gs, key=lambda x: x.id):
        ctx.saw(g)
        N = int(re.match(r"^&\[u8; (\d+)\]$", g.local_ty(1)).group(1))
        a = bounds.Analysis(g)
        rs = [sk for sk in a.sinks if sk.kind == "range" and len(sk.index_lins) == 2 and all(x.is_const() for x in sk.index_lins) and ("[u8; %d]" % N) in sk.what]
        if not rs and any(sk.kind == "range" and len(sk.index_lins) == 1 for sk in a.sinks):
            ctx.ok(rule, [g.id, "other-scheme"], "hashes a prefix `..b` (checksum stored behind the data, LocalHeader): not the leading-guard layout", g.loc(), nontrivial=False)
            continue
        if not ctx.anchor(rule, rs, "constant hashed range in %s" % g.id):
            continue
        lo, hi = rs[0].index_lins[0].c, rs[0].index_lins[1].c
        width = int(re.match(r"^u(\d+)$", g.local_ty(0)).group(1)) // 8
        ctx.check(lo == width, rule, [g.id, "starts-after-guard"], "the hashed range starts right after the %d-byte guard" % width,
                  "%s hashes record[%d..%d] but the guard it returns is %d bytes wide: bytes %d..%d are neither the guard nor covered by it"
                  % (ctx._stable(g.id), lo, hi, width, min(lo, width), max(lo, width)), g.loc(), sample={"range": [lo, hi], "guard_bytes": width})
        sibs = [b for b in prog.bodies.values() if not b.root and b.self_ty == g.self_ty and b.item == "from_bytes" and b.local_ty(1) == g.local_ty(1)]
        if not ctx.anchor(rule, sibs, "from_bytes(&[u8; %d]) next to %s" % (N, g.id)):
            continue
        for d in sibs:
            ctx.saw(d)
            ad = bounds.Analysis(d)
            reads = set()
            for sk in ad.sinks:
                if sk.kind == "bounds" and sk.index_lins and sk.index_lins[0].is_const() and sk.goals and sk.goals[0] is not None and sk.goals[0].is_const():
                    i = sk.index_lins[0].c
                    if i + 1 - sk.goals[0].c == N:
                        reads.add(i)
                elif sk.kind == "range" and ("[u8; %d]" % N) in sk.what and len(sk.index_lins) == 2 and all(x.is_const() for x in sk.index_lins):
                    reads |= set(range(sk.index_lins[0].c, sk.index_lins[1].c))
            if not ctx.anchor(rule, reads, "constant offsets read by %s" % d.id):
                continue
            out = sorted(i for i in reads if i >= hi)
            ctx.check(not out, rule, [g.id, "covers-what-is-read"], "every offset from_bytes reads (%d..%d) is guarded or is the guard" % (min(reads), max(reads)),
                      "%s hashes record[%d..%d], but %s also reads offset(s) %s: corrupting those bytes (a status byte turning a live entry into a tombstone) "
                      "leaves the guard valid" % (ctx._stable(g.id), lo, hi, ctx._stable(d.id), out), g.loc(), sample={"range": [lo, hi], "read_offsets": sorted(reads)})


def run(ctx, cfg=CFG):
    r14_guard_covers_record(ctx, cfg)
    r13_hooks_hash(ctx, cfg)
    r12_every_item_validated(ctx, cfg)
    r11_hash_is_read(ctx, cfg)
    r10_skipped_only_when_absent(ctx, cfg)
    r8_prevalidated(ctx, cfg)
    r9_hashed_bytes(ctx, cfg)
    r1_r2(ctx, cfg)
    r4_full_width(ctx, cfg)
    r5_hooks(ctx, cfg)
    r6_skip_pure(ctx, cfg)
    r7_content_cache(ctx, cfg)


from .selftest import for_families as _ff  # noqa: E402
selftest = _ff(['gate', 'loop'])
