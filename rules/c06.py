"""C06 - crash-atomic saves: publish protocol of every save routine (temp -> data -> flush -> checked
sync -> rename), no in-place rewrite of checksummed state, loaders ignore leftovers."""
import re
from .facts import op_local, Slice, place_fields, op_const
from .lib import enum_switches, must_pass, forward_calls, is_discarded, bool_switches, copies_of
from .c05 import enum_switches_through, flows_to_consumer

CRATES = ["cascette_cache", "cascette_client_storage"]

EXPLANATION = (
    "Static rules over the MIR of cascette-cache and cascette-client-storage. Discovery: every non-test body that calls "
    "fs::rename (P) and every body in the persistent-state modules (index/, kmt/, lru/, disk_cache.rs) that creates or "
    "overwrites a file (W). R1 publish order, per rename: the renamed source is a temp path distinct from the destination; "
    "the temp file is created truncating; every path from its creation to the rename passes a sync of that file whose error "
    "edge cannot reach the rename; a BufWriter over the file is flushed explicitly before the sync; no data write lies between "
    "the sync and the rename; when creation+sync live in a callee, the rename is reachable only through the callee's Ok edge. "
    "R3: a W body whose created path is not the source of a rename writes checksummed state in place. R4: the sync result is "
    "consumed. R5: directory-scanning loaders test the final extension/name so that *.tmp leftovers are ignored. A crash point "
    "is a prefix of a path through these CFGs; the rules quantify over all paths, i.e. over all crash points between the steps.")

ASSUMPTIONS = [
    "POSIX rename atomicity and fsync semantics; directory fsync is not required by the property and not checked",
    "what a reopen actually shows for each crash point is not executed; only the ordering obligations are decided",
]

CREATE = re.compile(r"^std::fs::File::(create|create_new)$|^std::fs::OpenOptions::open$|^tokio::fs::file::File::(create|create_new)$|^tokio::fs::open_options::OpenOptions::open$")
WRITE_WHOLE = re.compile(r"^std::fs::write$|^tokio::fs::write::write$")
RENAME = re.compile(r"^std::fs::rename$|^tokio::fs::rename::rename$")
SYNC = re.compile(r"^std::fs::File::(sync_all|sync_data)$|^tokio::fs::file::File::(sync_all|sync_data)$|^libc::(unix::)?fsync$|^libc::(unix::)?fdatasync$")
BUFW = re.compile(r"\bBufWriter::<W>::(new|with_capacity)$")
FLUSH = re.compile(r"\bWrite>?::flush$|AsyncWriteExt>?::flush$|\bBufWriter::<W>::into_inner$")
DATA_WRITE = re.compile(r"\bWrite>?::(write_all|write|write_fmt|write_vectored)$|AsyncWriteExt>?::(write_all|write)$|BinWrite.*::write(_le|_be|_options)?$|BinWriterExt>?::write_(le|be|type)")
PATH_DERIVE = re.compile(r"Path::(with_extension|with_file_name|join)$|PathBuf::(push|set_extension|set_file_name)$|\bformat$|tempfile")

CFG = {
    "krates": ["cascette_cache", "cascette_client_storage"],
    "rename_floor": 3,
    "state_modules": r"/(index|kmt|lru)/[^/]+\.rs$|/disk_cache\.rs$",
    "not_state": {
        # rename callers that publish something the property's statement does not list
        "cascette_client_storage::storage::archive_file::{impl#0}::compact_single_archive":
            "publishes a compacted *data archive* (copy -> set_len -> rename, no sync); outside C06's list of objects",
    },
    "loaders": [
        ("IndexManager", "parse_index_filename", r"idx"),
        (None, "filename_to_generation", r"lru"),
    ],
}

PATH_TRANSPARENT = re.compile(r"\bDeref>?::deref$|\bAsRef<.*>>?::as_ref$|\bClone>?::clone$|\bBorrow<.*>>?::borrow$|Path::to_path_buf$|PathBuf::as_path$|\bInto<U>>?::into$|\bFrom<.*>>?::from$|Path::new$")


def path_roots(body, op):
    """locals a path operand derives from (through refs / as_ref / deref / clone)"""
    l = op_local(op)
    if l is None:
        return set(), None
    sl = Slice(body, [l], transparent=PATH_TRANSPARENT)
    return sl.locals, sl


def file_holders(body, create_call):
    """locals that hold the created File (through ?, map_err, unwrap, refs, BufWriter::new ...)"""
    through = re.compile(r"\bTry>?::branch$|\bResult::<T, E>::(map_err|unwrap|expect|unwrap_or_else|ok)$|\bDeref(Mut)?>?::deref(_mut)?$|\bBufWriter::<W>::(new|with_capacity|get_ref|get_mut)$|AsRawFd>?::as_raw_fd$|\bInto<U>>?::into$")
    holders = set()
    start = create_call.dest[0]
    # awaited creations (tokio)
    from .lib import result_local
    rl, _ = result_local(body, create_call)
    work = [start, rl]
    while work:
        l = work.pop()
        if l in holders:
            continue
        holders.add(l)
        for i, j, s in body.stmts():
            d = s["p"][0]
            r = s["r"]
            src = None
            if r["k"] in ("Use", "Cast") and r["o"][0]["k"] in ("cp", "mv"):
                src = r["o"][0]["p"][0]
            elif r["k"] in ("Ref", "RawPtr"):
                src = r["p"][0]
            if src == l and d not in holders:
                work.append(d)
        for c in body.calls:
            if c.args and any(op_local(a) == l for a in c.args) and (through.search(c.name) or through.search(c.orig_name)):
                if c.dest[0] not in holders:
                    work.append(c.dest[0])
    return holders


def calls_on(body, holders, pat):
    out = []
    for c in body.calls:
        if (pat.search(c.name) or pat.search(c.orig_name)) and any(op_local(a) in holders for a in c.args):
            out.append(c)
    return out


def truncating(body, c):
    """creation truncates (File::create) or is exclusive (create_new) or OpenOptions chain has truncate(true)/create_new(true)"""
    if re.search(r"File::(create|create_new)$", c.name):
        return True, "File::create"
    sl = Slice(body, [op_local(c.args[0])], transparent=re.compile(r"OpenOptions::\w+$|\bDeref(Mut)?>?::deref(_mut)?$"))
    for x in sl.calls:
        if re.search(r"OpenOptions::(truncate|create_new)$", x.name):
            if len(x.args) > 1 and op_const(x.args[1]) == 1:
                return True, x.name.split("::")[-1] + "(true)"
    return False, "OpenOptions without truncate(true)"


def analyse_writer(ctx, rule, body, create, end_blocks, what):
    """obligations between a file creation and the publish point(s) `end_blocks` inside one body"""
    ok_all = True
    holders = file_holders(body, create)
    syncs = calls_on(body, holders, SYNC)
    key = [body.id, what]
    # truncation
    t_ok, how = truncating(body, create)
    ctx.check(t_ok, rule, key + ["truncate"], "temp file is created empty (%s)" % how,
              "%s opens the temp file without truncating it: a longer leftover from a crashed save is reused and its stale tail "
              "is published after the new data" % body.id, create.loc(), sample={"create": create.loc(), "how": how})
    # sync on every path
    sb = {c.bb for c in syncs}
    passes = bool(sb) and must_pass(body, create.bb, end_blocks, sb)
    ctx.check(passes, rule, key + ["sync-before-publish"], "every path from creation to publish passes a sync of the file",
              "%s can publish (rename / return Ok) the temp file without syncing it: after a crash the renamed file may be empty or partial "
              "and is accepted" % body.id, create.loc(),
              sample={"create": create.loc(), "syncs": [c.loc() for c in syncs], "publish_blocks": sorted(end_blocks)})
    ok_all &= passes
    # BufWriter flushed before sync
    bws = calls_on(body, holders, BUFW)
    for n, bw in enumerate(bws):
        bh = file_holders(body, bw) | {bw.dest[0]}
        fl = {c.bb for c in calls_on(body, bh, FLUSH)}
        good = bool(fl) and all(must_pass(body, bw.bb, {s.bb}, fl) for s in syncs) and bool(syncs)
        ctx.check(good, rule, key + ["flush-before-sync#%d" % n], "buffered writer is flushed before the sync",
                  "%s syncs the file while data is still sitting in the BufWriter (no explicit flush on every path before the sync): "
                  "the rename publishes an empty/partial file and the buffered data is written after it" % body.id,
                  bw.loc(), sample={"bufwriter": bw.loc(), "flush_blocks": sorted(fl), "syncs": [s.loc() for s in syncs]})
        holders |= bh
    # no data write between sync and publish
    writes = calls_on(body, holders, DATA_WRITE)
    for n, s in enumerate(syncs):
        after = body.reachable(body.succ[s.bb])
        late = [w for w in writes if w.bb in after and (body.reachable([w.bb]) & set(end_blocks))
                and not any(must_pass(body, w.bb, end_blocks, {s2.bb}) for s2 in syncs if s2.bb != s.bb)]
        # a write that can reach the sync again (loop) is fine only if it must pass a sync before the end
        late = [w for w in late if not must_pass(body, w.bb, end_blocks, sb)]
        ctx.check(not late, rule, key + ["no-write-after-sync#%d" % n], "no data write between sync and publish",
                  "%s writes to the temp file after syncing it (%s)" % (body.id, [w.loc() for w in late]), s.loc())
    # sync result checked (R4)
    for n, s in enumerate(syncs):
        r4 = "C06.R4"
        ctx.rule(r4, "the result of every sync is consumed and its error edge cannot reach the publish point")
        from .lib import result_local
        rl, _ = result_local(body, s)
        sws = enum_switches_through(body, rl)
        if sws:
            bad = False
            for (ebb, m, other, via) in sws:
                if 1 in m and (body.reachable([m[1]]) & set(end_blocks)):
                    bad = True
            ctx.check(not bad, r4, [body.id, what, "sync-err#%d" % n], "sync error does not publish",
                      "%s: a failed sync still reaches the rename / Ok return" % body.id, s.loc(),
                      sample={"sync": s.loc(), "callee": s.name})
        elif flows_to_consumer(body, rl):
            ctx.ok(r4, [body.id, what, "sync-err#%d" % n], "sync result consumed", s.loc(), sample={"sync": s.loc()})
        else:
            ctx.bad(r4, [body.id, what, "sync-unchecked", s.name.split("::")[-1]],
                    "%s ignores the result of %s: an I/O error while forcing the data to disk is not noticed and the entry is "
                    "published as if durable" % (body.id, s.name), s.loc())
    return ok_all


def r1_publish(ctx, cfg):
    rule = "C06.R1"
    ctx.rule(rule, "publish protocol at every rename: temp != final, truncating create, flush, sync on all paths, then rename")
    renames = [c for c in ctx.prog.all_calls(RENAME.pattern, krates=cfg["krates"])]
    ctx.floor(rule, len(renames), cfg.get("rename_floor", 0), "rename call sites")
    published = set()  # (body id, create bb) that are rename sources
    for r in renames:
        b = r.body
        ctx.saw(b)
        ctx.call_sites += 1
        if b.id in cfg.get("not_state", {}):
            ctx.info("%s renames at %s but %s" % (b.id, r.loc(), cfg["not_state"][b.id]))
            continue
        src_roots, src_sl = path_roots(b, r.args[0])
        dst_roots, dst_sl = path_roots(b, r.args[1])
        distinct = src_sl is not None and dst_sl is not None and not (src_roots & dst_roots - derived_bases(b, src_sl)) \
            and src_sl.has_call(PATH_DERIVE.pattern) is not None
        temp_derived = bool(src_sl) and (src_sl.has_call(PATH_DERIVE.pattern) or bool(src_sl.args))
        same = op_local(r.args[0]) is not None and (src_roots and dst_roots and src_roots == dst_roots)
        # on EVERY definition path the source goes through a name derivation: the slices stop at derivation calls (they are not
        # transparent), so a local shared by both slices is a way for the source to BE the destination (`if first_save { path } else
        # { path.with_extension("tmp") }` writes the live file in place)
        alias = sorted((src_roots & dst_roots)) if (src_sl is not None and dst_sl is not None) else []
        ctx.check(not alias, rule, [b.id, "temp-never-final"], "no definition of the rename source reaches the destination path without a name derivation",
                  "%s: on some path the file that is written and renamed IS the destination (the source path derives from the same value as the "
                  "destination without passing with_extension / join / format!): the live file is rewritten in place and a crash leaves it torn" % b.id,
                  r.loc(), sample={"rename": r.loc(), "shared_locals": [b.local_name(x) or x for x in alias][:4]})
        ctx.check(not same and temp_derived, rule, [b.id, "temp-distinct"], "rename source is a temp path distinct from the destination",
                  "%s renames a path onto itself / the source is not a derived temp name" % b.id, r.loc(),
                  sample={"rename": r.loc(), "source_derivation": [c.name for c in (src_sl.calls if src_sl else [])][:4]})
        # creators of the temp path: in this body, or a callee that receives the temp path
        creators = []
        for c in b.calls:
            if c.bb not in b.live_blocks():
                continue
            if CREATE.search(c.name) or WRITE_WHOLE.search(c.name):
                parg = c.args[-1] if re.search(r"OpenOptions::open$", c.name) else c.args[0]
                roots, _ = path_roots(b, parg)
                if roots & src_roots:
                    creators.append(("here", c, None))
            else:
                for tgt in ctx.prog.call_targets(c):
                    tb = ctx.prog.bodies[tgt]
                    for ai, a in enumerate(c.args):
                        roots, _ = path_roots(b, a)
                        if roots & src_roots and op_local(a) is not None:
                            for cc in tb.calls:
                                if CREATE.search(cc.name) or WRITE_WHOLE.search(cc.name):
                                    parg = cc.args[-1] if re.search(r"OpenOptions::open$", cc.name) else cc.args[0]
                                    proots, _ = path_roots(tb, parg)
                                    if (ai + 1) in proots:
                                        creators.append(("callee", c, (tb, cc)))
        if not creators:
            ctx.bad(rule, [b.id, "no-creator"], "cannot find where the renamed temp file of %s is created (anchor-missing)" % b.id, r.loc())
            continue
        for where, c, extra in creators:
            if where == "here":
                published.add((b.id, c.bb))
                if WRITE_WHOLE.search(c.name):
                    ctx.bad(rule, [b.id, "write-no-sync"], "%s publishes a file written with fs::write (no sync possible before the rename)" % b.id, c.loc())
                    continue
                analyse_writer(ctx, rule, b, c, {r.bb}, "rename")
            else:
                tb, cc = extra
                ctx.saw(tb)
                published.add((tb.id, cc.bb))
                # callee: creation -> Ok return
                from .lib import assigns_variant
                okb = set(assigns_variant(tb, "Ok"))
                # a tail expression (`writer.flush()` / `file.sync_all().map_err(..)` as the last statement) returns the callee's Result without an
                # Ok(..) literal: the block that assigns the return place from a call result is a success return as well
                from .lib import return_holders
                rh = return_holders(tb)
                for cx in tb.calls:
                    if cx.dest and cx.dest[0] in rh and cx.bb in tb.live_blocks() and not re.search(r"from_residual$", cx.name):
                        okb |= set(tb.succ[cx.bb][:1])
                if not ctx.anchor(rule, okb, "Ok return of %s" % tb.id):
                    continue
                analyse_writer(ctx, rule, tb, cc, okb, "writer-for:" + b.id.split("::")[-1])
                # caller: rename only through the callee's Ok edge
                sws = enum_switches_through(b, c.dest[0])
                good = False
                for (ebb, m, other, via) in sws:
                    if 1 in m and r.bb not in b.reachable([m[1]], avoid={c.bb}) and b.dominates(c.bb, r.bb):
                        good = True
                ctx.check(good, rule, [b.id, "rename-after-ok"], "rename only after the writer returned Ok",
                          "%s renames the temp file although writing/syncing it failed" % b.id, r.loc(),
                          sample={"writer_call": c.loc(), "rename": r.loc()})
    return published


def derived_bases(body, sl):
    """locals that are only inputs of a path-derivation call (the base the temp name is derived from)"""
    out = set()
    for c in sl.calls:
        if PATH_DERIVE.search(c.name):
            for a in c.args:
                l = op_local(a)
                if l is not None:
                    out |= Slice(body, [l], transparent=PATH_TRANSPARENT).locals
    return out


def r3_in_place(ctx, cfg, published):
    rule = "C06.R3"
    ctx.rule(rule, "no checksummed state file is (re)written in place: every creation in the state modules is the source of a rename")
    rx = re.compile(cfg["state_modules"])
    n = 0
    for b in sorted(ctx.prog.bodies.values(), key=lambda x: x.id):
        if b.krate not in cfg["krates"] or not rx.search(b.file):
            continue
        live = b.live_blocks()
        for c in b.calls:
            if c.bb not in live:
                continue
            if not (CREATE.search(c.name) or WRITE_WHOLE.search(c.name)):
                continue
            if re.search(r"OpenOptions::open$", c.name) and not opens_for_write(b, c):
                continue
            n += 1
            ctx.saw(b)
            ctx.call_sites += 1
            if (b.id, c.bb) in published:
                ctx.ok(rule, [b.id, c.name.split("::")[-1]], "published through rename", c.loc(),
                       sample={"creator": c.loc(), "published_by": "rename"})
            else:
                ctx.bad(rule, [b.id, c.name.split("::")[-1]],
                        "%s writes persistent, checksum-protected state directly at its final path (%s at %s) instead of temp+sync+rename: "
                        "a crash during the write leaves a truncated/mixed file that fails its check or, worse, is the only generation left"
                        % (b.id, c.name, c.loc()), c.loc())
    ctx.floor(rule, n, cfg.get("creator_floor", 4), "file creations in the persistent-state modules")


def opens_for_write(body, c):
    sl = Slice(body, [op_local(c.args[0])], transparent=re.compile(r"OpenOptions::\w+$|\bDeref(Mut)?>?::deref(_mut)?$"))
    for x in sl.calls:
        if re.search(r"OpenOptions::(write|append|create|truncate|create_new)$", x.name) and len(x.args) > 1 and op_const(x.args[1]) == 1:
            return True
    return False


def r5_loaders(ctx, cfg):
    rule = "C06.R5"
    ctx.rule(rule, "directory-scanning loaders accept only the final file-name shape, so *.tmp leftovers are ignored")
    for ty, item, ext in cfg["loaders"]:
        bs = ctx.prog.find(self_ty=(r"\b%s\b" % ty) if ty else None, item=item, closure=False)
        bs = [b for b in bs if b.krate in cfg["krates"]]
        if not ctx.anchor(rule, bs, "loader filter %s" % item):
            continue
        b = bs[0]
        ctx.saw(b)
        fam = ctx.prog.family(b)
        # the filter must test the name against a string constant containing the final extension, or its exact length
        consts = []
        for fb in fam:
            for i, j, s in fb.stmts():
                for o in s["r"].get("o", []):
                    if o["k"] == "c" and "s" in o:
                        consts.append(o["s"])
                    if o["k"] == "c" and "promoted" in o:
                        consts += [x.get("s", "") for x in fb.promoted_consts(o["promoted"])]
            for c in fb.calls:
                for o in c.args:
                    if o["k"] == "c" and "s" in o:
                        consts.append(o["s"])
                    if o["k"] == "c" and "promoted" in o:
                        consts += [x.get("s", "") for x in fb.promoted_consts(o["promoted"])]
        ext_tested = any(ext in s for s in consts)
        cmp_calls = []
        for fb in fam:
            cmp_calls += fb.calls_matching(r"str>?::(ends_with|strip_suffix|eq|ne|split|rsplit|split_once|rsplit_once)$|PartialEq.*>::(eq|ne)$|Path::extension$|str::.*::eq$|\blen$")
        ctx.check(ext_tested and bool(cmp_calls), rule, [b.id, "final-name-only"], "filter tests the final extension/shape",
                  "%s no longer tests the final extension (%r): leftover temp files would be loaded" % (b.id, ext), b.loc(),
                  sample={"filter": b.id, "string_constants": sorted(set(consts))[:8], "comparisons": len(cmp_calls)})


REMOVE = re.compile(r"^std::fs::remove_file$|^tokio::fs::remove_file::remove_file$")


def r6_delete_after_replace(ctx, cfg):
    """generation rotation / replace-by-new-file: a saver that also deletes another state file (the previous generation) does so
    only after the replacement has been written successfully; deleting first leaves a window (and every failed write) with no
    valid state on disk"""
    rule = "C06.R6"
    ctx.rule(rule, "in a saver of persistent state, a remove_file of a path other than the one being written is dominated by the success edge "
                   "of the write of the replacement")
    from .lib import result_local
    n = 0
    for b in ctx.prog.bodies.values():
        if b.krate not in cfg["krates"] or not re.search(cfg["state_modules"], b.file or "") or b.id in cfg.get("not_state", {}):
            continue
        ws = [c for c in b.calls if WRITE_WHOLE.search(c.name) or CREATE.search(c.name) or RENAME.search(c.name)]
        ds = [c for c in b.calls if REMOVE.search(c.name)]
        if not ws or not ds:
            continue
        ctx.saw(b)
        own = set()
        for w in ws:
            own |= path_roots(b, w.args[0])[0]
        ok_edges = set()
        for w in ws:
            rl, _ = result_local(b, w)
            for (ebb, m, other, via) in enum_switches_through(b, rl):
                if 0 in m:
                    ok_edges.add(m[0])
        for k, d in enumerate(ds):
            roots = path_roots(b, d.args[0])[0]
            if roots & own:
                ctx.ok(rule, [b.id, "own-temp", d.bb], "removes the file being written (cleanup of its own temp)", d.loc(), nontrivial=False)
                continue
            n += 1
            good = any(b.dominates(e, d.bb) for e in ok_edges)
            ctx.check(good, rule, [b.id, "delete-after-write"], "the other state file is deleted only after the replacement was written",
                      "%s deletes another state file (the previous generation) on a path that has not passed the successful write of the new one: "
                      "a crash in between, or a failing write (disk full), leaves no valid state on disk - neither the old nor the new" % ctx._stable(b.id),
                      d.loc(), sample={"remove": d.loc(), "writes": [w.loc() for w in ws]})
    ctx.floor(rule, n, 1, "removals of a previous-generation state file in savers")


READ_OPEN = re.compile(r"^std::fs::File::open$|^std::fs::read$|^std::fs::read_to_string$|^tokio::fs::file::File::open$|^tokio::fs::read::read$|^std::fs::OpenOptions::open$|^std::fs::metadata$|^std::path::Path::exists$|^std::path::Path::is_file$")


def r7_loaders_skip_temp(ctx, cfg):
    """a temp file found on disk always comes from a save that died before its rename: no loader of persistent state derives a path with the
    temp suffix and reads / probes it (falling back to `<name>.tmp` when the real file is missing adopts a torn write)"""
    rule = "C06.R7"
    ctx.rule(rule, "in the state modules no load* / open* / new* / initialize* function reads, opens or probes a path derived with a 'tmp' suffix")
    n = 0
    for b in ctx.prog.bodies.values():
        if b.krate not in cfg["krates"] or not re.search(cfg["state_modules"], b.file or ""):
            continue
        root = ctx.prog.bodies.get(b.root) if b.root else b
        if not root or not re.match(r"(load|open|new|initialize|from_file|read_|reload)", root.item or ""):
            continue
        for c in b.calls:
            if c.bb not in b.live_blocks() or not READ_OPEN.search(c.name) or not c.args:
                continue
            l = op_local(c.args[-1] if c.name.endswith("OpenOptions::open") else c.args[0])
            if l is None:
                continue
            n += 1
            sl = Slice(b, [l], transparent=True)
            tmp = [o for o in sl.consts if isinstance(o.get("s"), str) and re.search(r"\btmp\b|\.tmp", o["s"])]
            ctx.check(not tmp, rule, [b.id, "reads-temp", c.name.split("::")[-1]], "the loader does not touch temp-suffixed paths",
                      "%s reads / probes a path built with a temp suffix (%s): a leftover temp file is by construction an interrupted save; adopting it on load "
                      "serves a state that is neither the old nor the new one" % (ctx._stable(b.id), tmp[0]["s"] if tmp else ""), c.loc())
    ctx.floor(rule, n, 3, "file reads / probes in loaders of the state modules")


READ_DIR = re.compile(r"^std::fs::read_dir$|^tokio::fs::read_dir::read_dir$")
REMOVE_ANY = re.compile(r"^std::fs::remove_file$|^tokio::fs::remove_file::remove_file$")
READ_WHOLE = re.compile(r"^std::fs::read$|^tokio::fs::read::read$|^std::fs::File::open$|^tokio::fs::file::File::open$")


def r8_sweep_after_success(ctx, cfg):
    """generation rotation keeps the old file until the new one is complete; the sweep of 'stale' generations (everything that is not the
    current or the previous generation) is only safe once the manager knows which generation is current. A caller that runs the sweep after a
    load or a checkpoint that FAILED deletes the only intact generation (the torn newest file stays, its checksum rejects it on the next start)."""
    rule = "C06.R8"
    ctx.rule(rule, "the stale-generation sweep (read_dir + remove_file) is unreachable from the error edge of a load / checkpoint of the same state "
                   "in the same function")
    from .lib import result_local
    prog = ctx.prog
    inmod = [b for b in prog.bodies.values() if b.krate in cfg["krates"] and re.search(cfg["state_modules"], b.file or "")]
    sweepers = {b.id for b in inmod if any(READ_DIR.search(c.name) for c in b.calls) and any(REMOVE_ANY.search(c.name) for c in b.calls)}
    ctx.floor(rule, len(sweepers), 1, "sweepers of stale state files (read_dir + remove_file)")
    # fallible load / save steps of the state: local functions returning Result whose family reads or writes a file
    def family_calls(b):
        out = list(b.calls)
        for k in prog.bodies.values():
            if k.root == b.id or k.parent == b.id:
                out += k.calls
        return out
    steps = {b.id for b in inmod if not b.root and re.search(r"result::Result<", b.local_ty(0) or "") is not None
             or (not b.root and any(READ_WHOLE.search(c.name) or WRITE_WHOLE.search(c.name) for c in family_calls(b)))}
    steps = {bid for bid in steps if any(READ_WHOLE.search(c.name) or WRITE_WHOLE.search(c.name) or CREATE.search(c.name) for c in family_calls(prog.bodies[bid]))}
    n = 0
    for b in prog.bodies.values():
        if b.krate not in cfg["krates"]:
            continue
        sw = [c for c in b.calls if any(t in sweepers for t in prog.call_targets(c)) and c.bb in b.live_blocks()]
        if not sw:
            continue
        st = [c for c in b.calls if any(t in steps for t in prog.call_targets(c)) and c.bb in b.live_blocks()]
        for c in st:
            rl, rbb = result_local(b, c)
            sws = enum_switches_through(b, rl)
            after = b.reachable([rbb])
            tgt = [s_ for s_ in sw if s_.bb in after]
            if not tgt:
                continue
            n += 1
            ctx.saw(b)
            errs = [m[1] for (ebb, m, other, via) in sws if 1 in m]
            if not sws:
                bad = True
                why = "its result is not examined before the sweep"
            else:
                bad = any(b.reachable([e]) & {s_.bb for s_ in tgt} for e in errs)
                why = "its error edge reaches the sweep"
            ctx.check(not bad, rule, [b.id, "sweep-after", c.name.split("::")[-1]], "the sweep runs only after %s succeeded" % c.name.split("::")[-1],
                      "%s calls %s and then sweeps stale generations, but %s: when the newest file is torn (crash during the last checkpoint) the manager "
                      "still believes in its initial generation and the sweep deletes the intact previous generation - nothing valid is left on disk"
                      % (ctx._stable(b.id), c.name.split("::")[-1], why), c.loc(), sample={"step": c.loc(), "sweeps": [s_.loc() for s_ in tgt]})
    ctx.floor(rule, n, 2, "load / checkpoint steps followed by a stale-generation sweep")


def r9_load_adopts_generation(ctx, cfg):
    """write-new / delete-old only protects the old state if a restarted manager continues counting from the generation it loaded: the loader of
    generation g (path helper fed from its parameter) must store g in the field the saver feeds to the same path helper"""
    rule = "C06.R9"
    ctx.rule(rule, "a loader that reads the file of the generation given as parameter stores that parameter in the generation field the saver names "
                   "its file with, on every path to its Ok return")
    from .lib import field_writes, assigns_variant
    prog = ctx.prog
    inmod = [b for b in prog.bodies.values() if b.krate in cfg["krates"] and re.search(cfg["state_modules"], b.file or "")]
    # the path helpers: local functions `*_file_path(dir, generation)`; the saver's counter field = the field it passes there next to a whole-file write
    counter = {}
    loaders = []
    for b in inmod:
        for c in b.calls:
            if not re.search(r"_file_path$", c.name) or len(c.args) < 2 or c.bb not in b.live_blocks():
                continue
            l = op_local(c.args[1])
            if l is None:
                continue
            sl = Slice(b, [l], transparent=True)
            flds = {f[-1] for f in sl.fields if f and not str(f[-1]).startswith("upvar:")}
            ups = {f[-1] for f in sl.fields if f and str(f[-1]).startswith("upvar:") and f[-1] != "upvar:self" and len(f) == 1}
            params = {a for a in sl.args if re.match(r"^u(32|64|size)$", b.local_ty(a) or "")}
            writes = any((WRITE_WHOLE.search(x.name) or CREATE.search(x.name)) and x.args and c.dest and c.dest[0] in path_roots(b, x.args[0])[0] for x in b.calls)
            reads = any(READ_WHOLE.search(x.name) for x in b.calls)
            if writes and flds and not ups and not params:
                counter.setdefault(c.name, set()).update(flds)
            if reads and (ups or params) and not flds:
                loaders.append((b, c, ups, params))
    ctx.floor(rule, len(loaders), 1, "loaders of a generation-numbered state file")
    for (b, c, ups, params) in loaders:
        ctx.saw(b)
        want = counter.get(c.name, set())
        if not want:
            ctx.bad(rule, [b.id, "no-saver"], "%s loads a generation-numbered file but no saver names its file through %s with a field" % (ctx._stable(b.id), c.name), c.loc())
            continue
        oks = [i for i in assigns_variant(b, "Ok", adt_pat=r"result::Result") if i in b.live_blocks()]
        good = False
        for fld in sorted(want):
            for (i, j, st_) in field_writes(b, fld):
                o = st_["r"]["o"][0] if st_["r"]["k"] == "Use" else None
                l = op_local(o) if o else None
                if l is None or i not in b.live_blocks():
                    continue
                sl = Slice(b, [l], transparent=True)
                src_ups = {f[-1] for f in sl.fields if f and str(f[-1]).startswith("upvar:")}
                if (src_ups & ups) or (sl.args & params):
                    if all(b.dominates(i, k) for k in oks) and oks:
                        good = True
        ctx.check(good, rule, [b.id, "adopts-generation"], "the loaded generation becomes the manager's current generation",
                  "%s reads the file of the generation it is given but does not store that generation in %s on every path to Ok: the next checkpoint "
                  "of a restarted manager counts from its initial value again, lands on (or below) a file that exists, and the rotation deletes or overwrites "
                  "the only valid checkpoint in place" % (ctx._stable(b.id), "/".join(sorted(want))), c.loc(), sample={"counter_fields": sorted(want)})


def r10_no_self_delete(ctx, cfg):
    """generation rotation: the saver writes <helper>(dir, A) and then removes <helper>(dir, B). The two names come out of the same helper, so they
    are the same file whenever A == B (a loader may set the current generation to what the 'previous' field still holds). The removal must be
    dominated by the not-equal edge of a comparison of A with B."""
    rule = "C06.R10"
    ctx.rule(rule, "a saver that writes <path helper>(.., A) and removes <path helper>(.., B) removes only on the A != B edge (it never deletes the file it has just written)")
    from .lib import bool_switches
    n = 0
    for b in ctx.prog.bodies.values():
        if b.krate not in cfg["krates"] or not re.search(cfg["state_modules"], b.file or "") or b.id in cfg.get("not_state", {}):
            continue
        ws = [c for c in b.calls if (WRITE_WHOLE.search(c.name) or CREATE.search(c.name) or RENAME.search(c.name)) and c.bb in b.live_blocks()]
        ds = [c for c in b.calls if REMOVE.search(c.name) and c.bb in b.live_blocks()]
        if not ws or not ds:
            continue

        def helper_of(call):
            """(helper call, fields its non-directory arguments derive from) for the path operand of a fs call"""
            arg = call.args[-1] if RENAME.search(call.name) else call.args[0]
            roots = path_roots(b, arg)[0]
            for h in b.calls:
                if h.local and h.dest and h.dest[0] in roots and len(h.args) >= 2 and h.bb in b.live_blocks():
                    flds = set()
                    for a in h.args[1:]:
                        l = op_local(a)
                        if l is None:
                            continue
                        sl = Slice(b, [l], transparent=True)
                        flds |= {f[-1] for f in sl.fields if f and not str(f[-1]).startswith("upvar:")}
                    return h, flds
            return None, set()
        wh = [(w,) + helper_of(w) for w in ws]
        for d in ds:
            hd, fd = helper_of(d)
            if hd is None or not fd:
                continue
            for (w, hw, fw) in wh:
                if hw is None or hw.name != hd.name or hw is hd or not fw or fw == fd:
                    continue
                if not (d.bb in b.reachable(b.succ[w.bb])):
                    continue
                n += 1
                ctx.saw(b)
                only_d, only_w = fd - fw, fw - fd
                guarded = False
                for (i, j, st_) in b.stmts():
                    r = st_["r"]
                    if r["k"] != "Bin" or r["op"] not in ("Ne", "Eq") or len(st_["p"]) != 1:
                        continue
                    sides = []
                    for o in r["o"]:
                        l = op_local(o)
                        fl = set()
                        if l is not None:
                            sl = Slice(b, [l], transparent=True)
                            fl = {f[-1] for f in sl.fields if f and not str(f[-1]).startswith("upvar:")}
                        else:
                            fl = {e["n"] for e in (o.get("p") or [])[1:] if isinstance(e, dict) and "n" in e and not str(e["n"]).startswith("upvar:")} if o["k"] in ("cp", "mv") else set()
                        sides.append(fl)
                    if not ((sides[0] & only_d and sides[1] & only_w) or (sides[0] & only_w and sides[1] & only_d)):
                        continue
                    for (sbb, tt, ft) in bool_switches(b, st_["p"][0]):
                        ne_edge = tt if r["op"] == "Ne" else ft
                        other = ft if r["op"] == "Ne" else tt
                        if ne_edge != other and not (set(b.pred[ne_edge]) - {sbb}) and b.dominates(ne_edge, d.bb):
                            guarded = True
                ctx.check(guarded, rule, [b.id, "never-the-file-just-written", hd.name.split("::")[-1]],
                          "the removal of %s(.., %s) is dominated by the not-equal edge of a comparison with %s" % (hd.name.split("::")[-1], "/".join(sorted(only_d)), "/".join(sorted(only_w))),
                          "%s writes %s(.., %s) and afterwards removes %s(.., %s) without establishing that the two differ: when both fields hold the same "
                          "number (a loader set the current generation to the one the 'previous' field still names) the checkpoint deletes the file it "
                          "has just written and the state is gone" % (ctx._stable(b.id), hw.name.split("::")[-1], "/".join(sorted(only_w)), hd.name.split("::")[-1], "/".join(sorted(only_d))),
                          d.loc(), sample={"write": w.loc(), "remove": d.loc(), "written_from": sorted(fw), "removed_from": sorted(fd)})
    ctx.floor(rule, n, 1, "savers that write and remove names built by one path helper")


def r11_sweep_spares_current(ctx, cfg):
    """a directory sweep that deletes generation-numbered state files never deletes the file of the CURRENT generation, whatever the other fields hold:
    the removal lies behind the not-equal edge of an equality test of the scanned generation with the field the saver names its file with. (A window
    test `prev..=current` is empty when a reload made prev > current - and then the sweep deletes the checkpoint that was just loaded.)"""
    rule = "C06.R11"
    ctx.rule(rule, "a read_dir sweep in the state modules removes a generation-numbered file only behind `scanned generation != self.<current generation field>`")
    from .lib import bool_switches
    n = 0
    # the saver's counter fields, as R9 finds them: what the saver passes to the *_file_path helper next to a whole-file write
    counters = set()
    for b in ctx.prog.bodies.values():
        if b.krate not in cfg["krates"] or not re.search(cfg["state_modules"], b.file or ""):
            continue
        for c in b.calls:
            if re.search(r"_file_path$", c.name) and len(c.args) >= 2 and op_local(c.args[1]) is not None and c.bb in b.live_blocks():
                writes = any((WRITE_WHOLE.search(x.name) or CREATE.search(x.name)) and x.args and c.dest and c.dest[0] in path_roots(b, x.args[0])[0] for x in b.calls)
                if writes:
                    sl = Slice(b, [op_local(c.args[1])], transparent=True)
                    counters |= {f[-1] for f in sl.fields if f and not str(f[-1]).startswith("upvar:")}
    for b in sorted(ctx.prog.bodies.values(), key=lambda x: x.id):
        if b.krate not in cfg["krates"] or not re.search(cfg["state_modules"], b.file or ""):
            continue
        if not any(re.search(r"^std::fs::read_dir$", c.name) for c in b.calls):
            continue
        rms = [c for c in b.calls if REMOVE.search(c.name) and c.bb in b.live_blocks()]
        gens = [c for c in b.calls if re.search(r"filename_to_generation$|_to_generation$", c.name)]
        if not rms or not gens or not counters:
            continue
        ctx.saw(b)
        for d in rms:
            n += 1
            guarded = False
            for (i, j, st) in b.stmts():
                r = st["r"]
                if r["k"] != "Bin" or r["op"] not in ("Ne", "Eq") or len(st["p"]) != 1:
                    continue
                sides = []
                for o in r["o"]:
                    l = op_local(o)
                    if l is None:
                        sides.append((set(), set()))
                        continue
                    sl = Slice(b, [l], transparent=True)
                    sides.append(({f[-1] for f in sl.fields if f}, {c.name for c in sl.calls}))
                for k in (0, 1):
                    cur = sides[k][0] & counters
                    scanned = any(re.search(r"_to_generation$", nm) for nm in sides[1 - k][1])
                    if not cur or not scanned:
                        continue
                    for (sbb, tt, ft) in bool_switches(b, st["p"][0]):
                        ne_edge = tt if r["op"] == "Ne" else ft
                        if not (set(b.pred[ne_edge]) - {sbb}) and b.dominates(ne_edge, d.bb):
                            guarded = True
            if not guarded:
                # the same test written as membership in an explicit list: `![self.generation, self.prev_generation].contains(&file_gen)`
                for c in b.calls:
                    if c.bb in b.live_blocks() and re.search(r"core::slice::<impl \[T\]>::contains$", c.name) and c.args and op_local(c.args[0]) is not None:
                        rs = Slice(b, [op_local(c.args[0])], transparent=True)
                        if {f[-1] for f in rs.fields if f} & counters:
                            for (sbb, tt, ft) in bool_switches(b, c.dest[0]):
                                if not (set(b.pred[ft]) - {sbb}) and b.dominates(ft, d.bb):
                                    guarded = True
            ctx.check(guarded, rule, [b.id, "sweep-spares-current"], "the removal is behind `scanned != current generation`",
                      "%s sweeps the directory and removes generation-numbered files without an equality test of the scanned generation against the saver's own "
                      "counter (%s) on the way: a window or ordering test is empty or wrong when a reload left the other bound above the current generation, and "
                      "the sweep then deletes the checkpoint that is in use" % (ctx._stable(b.id), "/".join(sorted(counters))), d.loc(), sample={"sweep": b.id, "counter_fields": sorted(counters)})
    ctx.floor(rule, n, 1, "removals in generation-file sweeps")


def run(ctx, cfg=CFG):
    r11_sweep_spares_current(ctx, cfg)
    r10_no_self_delete(ctx, cfg)
    r9_load_adopts_generation(ctx, cfg)
    r8_sweep_after_success(ctx, cfg)
    r7_loaders_skip_temp(ctx, cfg)
    r6_delete_after_replace(ctx, cfg)
    published = r1_publish(ctx, cfg)
    r3_in_place(ctx, cfg, published)
    r5_loaders(ctx, cfg)


from .selftest import for_families as _ff  # noqa: E402
selftest = _ff(['publish'])
