"""C01 - BLTE encode/decode identity (structural clauses: block-index provenance, mode tables, chunk table)."""
import re
from .facts import strip_regions, op_local, Slice, place_fields, op_const
from .lib import bool_switches, must_pass, assigns_variant, enum_switches
from .cachebooks import recv_fields

CRATES = ["cascette_formats", "cascette_crypto"]

EXPLANATION = (
    "Static rules over the MIR of cascette_formats::blte. R1 block-index provenance: the decoder decrypts chunk k with block index k "
    "(checked: decrypt_chunk_with_keys' index argument slices back to the Enumerate item over self.chunks), therefore every block index an "
    "encoder hands to the cipher must derive from the chunk's global position: Vec::len(&self.chunks), possibly plus a counter that starts "
    "there; a constant, a counter initialised from a constant, an enumerate() over the input, or an unchecked caller-chosen value is a "
    "violation. R2 tables: CompressionMode::from_byte and the enum discriminants behind as_byte are inverse maps; the set of modes with a "
    "non-error arm in compress_chunk equals that of decompress_chunk; the encryption-type constants of encrypt_chunk_with_key and "
    "decrypt_chunk_with_keys agree; every size constant that bounds the decoder is the documented cap (so the decoder accepts whatever the "
    "encoder can emit below 1 GiB). R3 chunk table: compressed_size and checksum derive from the same compressed_data() value and "
    "decompressed_size from decompressed_size() of the chunk being described; the header builds one info per input chunk and derives the "
    "header size from chunks.len() and chunk_info_size(). compress/decompress and encrypt/decrypt being inverse functions is value-level "
    "and not decided.")

ASSUMPTIONS = ["compress∘decompress and encrypt∘decrypt being identities, sizes near chunk boundaries and >4 GiB truncating casts are not decided"]


def blte(ctx, ty, item, rule, closure=False):
    bs = [b for b in ctx.prog.find(self_ty=(r"\b%s\b" % ty) if ty else None, item=item, closure=closure) if re.search(r"cascette-formats/src/blte/", b.file)]
    if ty is None:
        bs = [b for b in bs if b.self_ty is None]
    if not ctx.anchor(rule, bs, "blte %s%s" % ((ty + "::") if ty else "", item)):
        return None
    return bs[0]


def r1_block_index(ctx):
    rule = "C01.R1"
    ctx.rule(rule, "every cipher block index derives from the chunk's global position (self.chunks.len())")
    prog = ctx.prog
    # decoder premise
    d = blte(ctx, "BlteFile", "decompress_with_keys", rule)
    if d:
        ctx.saw(d)
        dec = d.calls_matching(r"compression::decrypt_chunk_with_keys$")
        if ctx.anchor(rule, dec, "decrypt_chunk_with_keys call in decompress_with_keys"):
            c = dec[0]
            sl = Slice(d, [op_local(c.args[2])], transparent=None) if op_local(c.args[2]) is not None else None
            from_enum = bool(sl) and any(re.search(r"\bEnumerate<", d.local_ty(l)) or re.search(r"Option<\(usize, ", d.local_ty(l)) for l in sl.locals)
            # ... and the position is counted over ALL chunks: the Enumerate wraps the plain slice iterator, with no Filter / Skip /
            # StepBy / Rev / Chain adaptor underneath (the encoder numbers every chunk it holds, empty ones included)
            enum_tys = set()
            for nc in (sl.calls if sl else []):
                if re.search(r"\bIterator>?::next$", nc.orig_name or nc.name) and nc.args and op_local(nc.args[0]) is not None:
                    enum_tys.add(strip_regions(d.local_ty(op_local(nc.args[0]))))
            enum_tys = sorted(t for t in enum_tys if "Enumerate<" in t)
            plain = bool(enum_tys) and all(re.search(r"Enumerate<core::slice::iter::Iter<", t) for t in enum_tys)
            ctx.check(plain or not from_enum, rule, [d.id, "decoder-index-counts-every-chunk"], "the decoder's index enumerates the unfiltered chunk list",
                      "decompress_with_keys numbers the chunks AFTER an iterator adaptor (%s): the block index of an encrypted chunk is no longer its "
                      "position in the container, while the builder encrypts chunk k with index k - every encrypted chunk behind a skipped one decrypts to "
                      "garbage with Ok status" % (enum_tys[:1],), c.loc(), sample={"enumerate_types": enum_tys[:2]})
            ctx.check(from_enum, rule, [d.id, "decoder-index"], "decoder uses the chunk's position as block index (premise)",
                      "decompress_with_keys no longer decrypts chunk k with block index k; R1's premise changed - re-derive the rule", c.loc(), sample={"decoder": d.id})
    # encoder side: wrappers forwarding their block_index parameter to the cipher
    wrappers = {}
    for b in prog.find(self_ty=r"\bBlteBuilder\b", closure=False):
        enc = b.calls_matching(r"compression::encrypt_chunk_with_key$")
        for c in enc:
            l = op_local(c.args[3]) if len(c.args) > 3 else None
            if l is None:
                continue
            sl = Slice(b, [l], transparent=None)
            params = [p for p in sl.locals if 1 <= p <= b.argc]
            if params:
                wrappers[b.id] = params[0]
                ctx.saw(b)
    if not ctx.anchor(rule, wrappers, "BlteBuilder helpers that forward a block index to encrypt_chunk_with_key"):
        return
    n = 0
    for b in prog.find(self_ty=r"\bBlteBuilder\b", closure=False):
        for c in b.calls:
            if c.bb not in b.live_blocks() or c.id not in wrappers:
                continue
            n += 1
            ctx.saw(b)
            ctx.call_sites += 1
            a = c.args[wrappers[c.id] - 1]
            key = [b.id, c.name.split("::")[-1], c.bb]
            if op_const(a) is not None:
                ctx.bad(rule, [b.id, "const-index"],
                        "%s encrypts a chunk with the constant block index %s regardless of how many chunks the builder already holds: the decoder uses the chunk's "
                        "global position, so a second call under with_encryption() decodes to garbage with Ok status" % (b.id, op_const(a)), c.loc())
                continue
            l = op_local(a)
            sl = Slice(b, [l], transparent=re.compile(r"\bInto<U>>?::into$|\bFrom<.*>>?::from$"))
            lens = [x for x in sl.calls if re.search(r"\bVec::<T, A>::len$", x.name) and "chunks" in recv_fields(b, x)]
            params = [p for p in sl.locals if 2 <= p <= b.argc]
            user = [x for x in sl.locals if b.locals[x].get("u")]
            # counters: every non-incremental definition of the user variables in the slice must derive from chunks.len()
            bad_init = []
            for u in user:
                for (bb, idx, kind, payload) in b.defs.get(u, []):
                    if kind == "assign":
                        r = payload["r"]
                        roots = [op_local(o) for o in r.get("o", []) if op_local(o) is not None]
                        s2 = Slice(b, roots, transparent=None)
                        if u in s2.locals:
                            continue
                        if r["k"] == "Use" and op_const(r["o"][0]) is not None:
                            bad_init.append("%s = %s" % (b.local_name(u), op_const(r["o"][0])))
                        elif not any(re.search(r"\bVec::<T, A>::len$", x.name) and "chunks" in recv_fields(b, x) for x in s2.calls):
                            bad_init.append("%s from %s" % (b.local_name(u), sorted({x.name.split('::')[-1] for x in s2.calls})[:3]))
                    else:
                        x = payload
                        if not (re.search(r"\bVec::<T, A>::len$", x.name) and "chunks" in recv_fields(b, x)):
                            bad_init.append("%s from %s()" % (b.local_name(u), x.name.split("::")[-1]))
            if params and not lens:
                ctx.bad(rule, [b.id, "caller-chosen-index"],
                        "%s forwards a caller-chosen block index to the cipher without comparing it with the chunk's position (self.chunks.len()): an index that "
                        "differs from the position produces a container that decodes to something else instead of an error" % b.id, c.loc())
            elif bad_init or not lens:
                ctx.bad(rule, [b.id, "index-not-from-position"] + sorted(bad_init)[:1],
                        "%s derives the cipher block index from %s instead of the chunk's global position self.chunks.len(): when the builder already holds chunks, "
                        "the chunks added by this call are encrypted with indices the decoder will not use (decode returns garbage with Ok)" %
                        (b.id, bad_init or "something unrelated to self.chunks.len()"), c.loc())
            else:
                ctx.ok(rule, key, "block index derives from self.chunks.len()", c.loc(), sample={"in": b.id, "call": c.loc(), "base": "self.chunks.len()"})
    ctx.floor(rule, n, 5, "encrypting call sites in BlteBuilder")


def switch_arms(b, discr_local):
    for i, blk in enumerate(b.blocks):
        t = blk["t"]
        if t["k"] == "Switch" and op_local(t["d"]) == discr_local and i in b.live_blocks():
            return i, {int(v): tg for v, tg in t["v"]}, t["o"]
    return None, {}, None


def r2_tables(ctx):
    rule = "C01.R2"
    ctx.rule(rule, "mode byte table, supported-mode sets, cipher type constants and size caps agree between encoder and decoder")
    prog = ctx.prog
    adt = next((a for a in prog.adts.values() if a["name"].endswith("blte::chunk::CompressionMode")), None)
    fb = blte(ctx, "CompressionMode", "from_byte", rule)
    if ctx.anchor(rule, adt, "enum CompressionMode") and fb:
        ctx.saw(fb)
        discr = {v["name"]: int(v["discr"]) for v in adt["variants"]}
        sbb, arms, other = switch_arms(fb, 1)
        if sbb is None:
            # switch on a copy of the argument
            for i, blk in enumerate(fb.blocks):
                t = blk["t"]
                if t["k"] == "Switch":
                    sbb, arms, other = i, {int(v): tg for v, tg in t["v"]}, t["o"]
                    break
        table = {}
        for byte, tg in arms.items():
            for blk_i in sorted(fb.reachable([tg], avoid={sbb})):
                for s in fb.blocks[blk_i]["s"]:
                    r = s["r"]
                    if r["k"] == "Agg" and r.get("ak") == "adt" and r["adt"].endswith("CompressionMode"):
                        table.setdefault(byte, r["variant"])
        if ctx.anchor(rule, table, "byte->mode table in CompressionMode::from_byte"):
            wrong = {hex(k): v for k, v in table.items() if discr.get(v) != k}
            missing = [v for v in discr if v not in table.values()]
            ctx.check(not wrong and not missing, rule, [fb.id, "inverse"], "from_byte is the inverse of the discriminants used by as_byte",
                      "CompressionMode::from_byte and as_byte disagree (wrong=%s, modes without a byte=%s): a chunk written with one mode is read back as another" % (wrong, missing),
                      fb.loc(), sample={"from_byte": {hex(k): v for k, v in table.items()}, "discriminants": {k: hex(v) for k, v in discr.items()}})
    # supported sets
    sets = {}
    for item in ("compress_chunk", "decompress_chunk"):
        b = blte(ctx, None, item, rule)
        if not b or not adt:
            continue
        ctx.saw(b)
        # discriminant of the `mode` argument
        dl = None
        for i, j, s in b.stmts():
            if s["r"]["k"] == "Discr" and s["r"]["p"][0] == 2:
                dl = s["p"][0]
        sbb, arms, other = switch_arms(b, dl) if dl is not None else (None, {}, None)
        if not ctx.anchor(rule, sbb is not None, "match on mode in %s" % item):
            continue
        okb = set(assigns_variant(b, "Ok"))
        sup = set()
        for vi, v in enumerate(adt["variants"]):
            dv = int(v["discr"])
            tg = arms.get(dv, other)
            if tg is None:
                continue
            if b.reachable([tg], avoid={sbb}) & okb:
                sup.add(v["name"])
        sets[item] = sup
    if len(sets) == 2:
        ctx.check(sets["compress_chunk"] == sets["decompress_chunk"], rule, ["compression", "supported-modes"], "encoder and decoder support the same modes",
                  "compress_chunk supports %s but decompress_chunk supports %s: a chunk the encoder emits cannot be decoded (or vice versa)" %
                  (sorted(sets["compress_chunk"]), sorted(sets["decompress_chunk"])), None, sample={k: sorted(v) for k, v in sets.items()})
    # cipher type constants
    tys = {}
    for item in ("encrypt_chunk_with_key", "decrypt_chunk_with_keys"):
        b = blte(ctx, None, item, rule)
        if not b:
            continue
        ctx.saw(b)
        consts = set()
        for i, j, s in b.stmts():
            for o in s["r"].get("o", []):
                v = op_const(o)
                if v in (0x53, 0x41):
                    consts.add(v)
        for i, blk in enumerate(b.blocks):
            t = blk["t"]
            if t["k"] == "Switch":
                for v, tg in t["v"]:
                    if int(v) in (0x53, 0x41):
                        consts.add(int(v))
        for c in b.calls:
            for a in c.args:
                if op_const(a) in (0x53, 0x41):
                    consts.add(op_const(a))
        tys[item] = consts
    if len(tys) == 2:
        ctx.check(tys["encrypt_chunk_with_key"] == tys["decrypt_chunk_with_keys"] and tys["encrypt_chunk_with_key"], rule, ["compression", "cipher-types"],
                  "cipher type bytes agree ('S' 0x53, 'A' 0x41)",
                  "encrypt_chunk_with_key writes cipher type bytes %s but decrypt_chunk_with_keys accepts %s" % (sorted(map(hex, tys["encrypt_chunk_with_key"])), sorted(map(hex, tys["decrypt_chunk_with_keys"]))),
                  None, sample={k: sorted(map(hex, v)) for k, v in tys.items()})
    # decoder size caps: every large constant bounding a size in decompress_chunk is the documented cap
    b = blte(ctx, None, "decompress_chunk", rule)
    if b:
        caps = set()
        for i, j, s in b.stmts():
            for o in s["r"].get("o", []):
                v = op_const(o)
                if v is not None and v >= (1 << 16) and s["r"]["k"] == "Bin" and s["r"]["op"] in ("Gt", "Ge", "Lt", "Le"):
                    caps.add(v)
        for c in b.calls:
            if re.search(r"::(min|clamp)$", c.name) or re.search(r"\bOrd>?::(min|clamp)$", c.orig_name):
                for a in c.args:
                    v = op_const(a)
                    if v is not None and v >= (1 << 16):
                        caps.add(v)
        doc_cap = 1 << 30
        ctx.check(caps and all(v == doc_cap for v in caps), rule, [b.id, "decoder-cap"], "decoder size bounds equal the documented 1 GiB cap",
                  "decompress_chunk bounds a chunk's decompressed size with %s instead of the documented 1 GiB cap: chunks the encoder produces without error above that "
                  "bound cannot be decoded" % sorted(caps), b.loc(), sample={"caps": sorted(caps)})


def r3_chunk_table(ctx):
    rule = "C01.R3"
    ctx.rule(rule, "chunk-table fields derive from the chunk they describe; one info per chunk; header size from the chunk count")
    for item in ("from_chunk_data", "from_chunk_data_extended"):
        b = blte(ctx, "ChunkInfo", item, rule)
        if not b:
            continue
        ctx.saw(b)
        agg = [s for i, j, s in b.stmts() if s["r"]["k"] == "Agg" and s["r"].get("ak") == "adt" and s["r"]["adt"].endswith("ChunkInfo")]
        if not ctx.anchor(rule, agg, "ChunkInfo literal in %s" % item):
            continue
        r = agg[0]["r"]
        f = dict(zip(r["fields"], r["o"]))
        cd = b.calls_matching(r"ChunkData::compressed_data$")
        ds = b.calls_matching(r"ChunkData::decompressed_size$")
        if not (ctx.anchor(rule, cd, "compressed_data() in %s" % item) and ctx.anchor(rule, ds, "decompressed_size() in %s" % item)):
            continue

        def from_call(op, calls):
            l = op_local(op)
            if l is None:
                return False
            sl = Slice(b, [l], transparent=True)
            return any(c in sl.calls for c in calls)
        same_src = from_call(f["compressed_size"], cd) and from_call(f["checksum"], cd) and len(cd) == 1
        of_chunk = all(1 in Slice(b, [op_local(c.args[0])]).locals for c in cd + ds)
        ctx.check(same_src and from_call(f["decompressed_size"], ds) and of_chunk, rule, [b.id, "fields"],
                  "compressed_size and checksum come from one compressed_data() of the chunk; decompressed_size from its decompressed_size()",
                  "%s fills the chunk table from something other than the chunk it describes (compressed_size/checksum from one compressed_data(): %s; "
                  "decompressed_size from decompressed_size(): %s)" % (b.id, same_src, from_call(f["decompressed_size"], ds)), b.loc(), sample={"info": b.id})
    b = blte(ctx, "BlteHeader", "multi_chunk_with_flags", rule)
    if b:
        ctx.saw(b)
        maps = b.calls_matching(r"\bIterator>?::map$")
        ok_map = False
        for m in maps:
            sl = Slice(b, [op_local(m.args[0])], transparent=True)
            over_chunks = 1 in sl.locals and not any(re.search(r"\bIterator>?::(skip|take|filter|step_by|rev)$", x.name) for x in sl.calls)
            fnarg = m.args[1]
            is_info = fnarg["k"] == "fn" and re.search(r"ChunkInfo::from_chunk_data(_extended)?$", fnarg["fn"]["name"]) is not None
            if over_chunks and is_info:
                ok_map = True
        ctx.check(ok_map, rule, [b.id, "one-info-per-chunk"], "one ChunkInfo per input chunk, in order",
                  "multi_chunk_with_flags does not map every input chunk, in order, to its own ChunkInfo", b.loc())
        hs = [s for i, j, s in b.stmts() if s["r"]["k"] == "Agg" and s["r"].get("ak") == "adt" and s["r"]["adt"].endswith("BlteHeader")]
        if ctx.anchor(rule, hs, "BlteHeader literal"):
            r = hs[0]["r"]
            f = dict(zip(r["fields"], r["o"]))
            sl = Slice(b, [op_local(f["header_size"])], transparent=True) if op_local(f["header_size"]) is not None else None
            ok = bool(sl) and sl.has_call(r"::len$") and sl.has_call(r"HeaderFlags::chunk_info_size$") and 12 in sl.int_consts()
            ctx.check(ok, rule, [b.id, "header-size"], "header_size = 12 + len * chunk_info_size()",
                      "multi_chunk_with_flags computes header_size from something other than 12 + chunks.len() * flags.chunk_info_size()", b.loc())


def r4_relative_positions(ctx):
    """a BLTE container is decoded from wherever the reader stands (containers sit back to back inside archives): the decoder may restore a
    position it saved, but an absolute seek to an offset computed from header fields is only right when the container starts at 0"""
    rule = "C01.R4"
    ctx.rule(rule, "in the BLTE BinRead::read_options bodies every SeekFrom::Start operand derives from a saved stream position (stream_position / seek result)")
    n = 0
    for b in ctx.prog.bodies.values():
        if b.krate != "cascette_formats" or not re.search(r"/blte/", b.file or ""):
            continue
        root = ctx.prog.bodies.get(b.root) if b.root else b
        if not root or root.item != "read_options":
            continue
        for i, j, st in b.stmts():
            r = st["r"]
            if r["k"] == "Agg" and r.get("variant") == "Start" and "SeekFrom" in r.get("adt", ""):
                n += 1
                ctx.saw(b)
                l = op_local(r["o"][0]) if r["o"] else None
                sl = Slice(b, [l], transparent=True) if l is not None else None
                saved = bool(sl) and any(re.search(r"\bSeek>?::(stream_position|seek)$", x.orig_name or x.name) for x in sl.calls)
                ctx.check(saved, rule, [b.id, "seek-start-from-saved-position"], "absolute seek restores a saved position",
                          "%s seeks to SeekFrom::Start(x) where x does not come from a position the reader reported (it is computed from header fields): "
                          "decoding a container that does not start at reader position 0 - the second of two back-to-back containers, a container behind a "
                          "prefix - reads some other container's bytes and returns them with Ok" % ctx._stable(b.id), "%s:%d" % (b.file, st["l"]))
    ctx.floor(rule, n, 2, "SeekFrom::Start sites in BLTE read_options bodies")


def r5_inner_payload(ctx):
    """what is encrypted is the inner payload - mode byte + data - on every path: the decoder strips the inner mode byte whenever the first
    decrypted byte looks like one, so a helper that encrypts the caller's bytes as they are loses the first byte of any plaintext that
    happens to start with N/Z/4/E/F (or fails to decode it)"""
    rule = "C01.R5"
    ctx.rule(rule, "in BlteBuilder, on every definition path the plaintext handed to encrypt_chunk_with_key passes build_inner_payload (or another "
                   "constructor that prepends the mode byte)")
    n = 0
    for b in ctx.prog.find(self_ty=r"\bBlteBuilder\b", closure=False):
        for c in b.calls_matching(r"compression::encrypt_chunk_with_key$"):
            if c.bb not in b.live_blocks() or not c.args or op_local(c.args[0]) is None:
                continue
            n += 1
            ctx.saw(b)
            # slice that does NOT look through the payload constructors: reaching a parameter means some path skips them
            stop = re.compile(r"build_inner_payload$|compress_chunk$|build_\w*payload$")
            tr = re.compile(r"\bDeref>?::deref$|\bAsRef<.*>>?::as_ref$|Vec::<T, A>::as_slice$|\bBorrow<.*>>?::borrow$|\bTry>?::branch$|\bClone>?::clone$")
            sl = Slice(b, [op_local(c.args[0])], transparent=tr)
            through = any(stop.search(x.name) for x in sl.calls)
            raw_params = [p for p in sl.locals if 2 <= p <= b.argc and re.search(r"\[u8\]|Vec<u8>", b.local_ty(p) or "")]
            ctx.check(through and not raw_params, rule, [b.id, "encrypts-inner-payload"], "the encrypted bytes are the inner payload on every path",
                      "%s can hand the caller's bytes to the cipher without the inner mode byte (a path that bypasses build_inner_payload): the decoder "
                      "strips a leading N/Z/4/E/F as the inner mode, so such plaintexts lose their first byte or fail to decode while the encoder returned Ok" %
                      ctx._stable(b.id), c.loc(), sample={"payload_constructors": sorted({x.name.split("::")[-1] for x in sl.calls})[:4]})
    ctx.floor(rule, n, 2, "encrypt_chunk_with_key call sites in BlteBuilder")


def payload_locals(b, call):
    """locals that carry the Ok / Continue payload of a call result (through map_err / `?` / copies)"""
    from .lib import TRY_BRANCH
    hold = {call.dest[0]}
    out = set()
    changed = True
    while changed:
        changed = False
        for c in b.calls:
            if c.args and op_local(c.args[0]) in hold and c.dest and c.dest[0] not in hold and \
                    (TRY_BRANCH.search(c.name) or TRY_BRANCH.search(c.orig_name or "") or re.search(r"\bResult::<T, E>::(map_err|or_else|inspect_err)$", c.name)):
                hold.add(c.dest[0])
                changed = True
        for (i, j, st) in b.stmts():
            r = st["r"]
            if r["k"] == "Use" and r["o"][0]["k"] in ("cp", "mv") and r["o"][0]["p"][0] in hold and len(st["p"]) == 1:
                p_ = r["o"][0]["p"]
                if len(p_) == 1 and st["p"][0] not in hold:
                    hold.add(st["p"][0])
                    changed = True
                elif any(isinstance(e, dict) and e.get("d") in ("Continue", "Ok") for e in p_[1:]) and st["p"][0] not in out:
                    out.add(st["p"][0])
                    changed = True
    return out


def r6_stream_status(ctx, prefix="cascette_formats"):
    """a streaming (de)compressor reports 'output buffer full' / 'need more input' through the Status in its Ok value, not as an error: an encoder or
    decoder that drops it hands back a truncated stream with Ok"""
    rule = "C01.R6"
    ctx.rule(rule, "the Status returned by flate2 Compress / Decompress calls is consumed (compared or branched on), never dropped")
    from .lib import is_discarded
    n = 0
    for b in ctx.prog.bodies.values():
        if not b.krate.startswith(prefix):
            continue
        for c in b.calls:
            if c.bb not in b.live_blocks() or not re.search(r"^flate2::mem::(Compress|Decompress)::(compress|compress_vec|decompress|decompress_vec)$", c.name):
                continue
            n += 1
            ctx.saw(b)
            pl = payload_locals(b, c)

            def really_used(l, depth=0):
                """used by something other than a copy into a local that is itself never used (`expr?;` moves the payload into a dead temporary)"""
                from .facts import uses_of_local
                for (ubb, uidx, kind) in uses_of_local(b, l):
                    if kind == "drop" or ubb not in b.live_blocks():
                        continue
                    if kind == "assign" and uidx < len(b.blocks[ubb]["s"]):
                        st_ = b.blocks[ubb]["s"][uidx]
                        if st_["r"]["k"] == "Use" and len(st_["p"]) == 1 and op_local(st_["r"]["o"][0]) == l and depth < 4:
                            if really_used(st_["p"][0], depth + 1):
                                return True
                            continue
                    return True
                return False
            used = any(really_used(l) for l in pl)
            ctx.check(used, rule, [b.id, "status", c.name.split("::")[-1]], "the Status is looked at",
                      "%s calls %s and drops the Status it returns: when the output buffer is too small (incompressible data emits a stored block about every "
                      "31 KiB) the call reports Ok(Status::Ok / BufError), not an error, and the function returns a truncated stream that the lenient decoder "
                      "accepts - encode/decode is Ok with the tail missing" % (ctx._stable(b.id), c.name.split("::")[-1]), c.loc())
    if n == 0:
        ctx.info("C01.R6: no streaming flate2 Compress / Decompress call in the BLTE codecs today (the Read adapters are used); rule armed for new code")


def r7_stored_only_in_mode_none(ctx):
    """the mode byte a chunk carries is the mode its body was encoded with: ChunkData::new keeps the caller's bytes as they are only on the
    `mode == None` edge; every other way round the encoder ("nothing to compress" for empty input) writes a body the decoder of that mode cannot read"""
    rule = "C01.R7"
    ctx.rule(rule, "ChunkData::new: the body is stored without passing compress_chunk only through the mode == None edge")
    bs = ctx.prog.find(self_ty=r"\bChunkData\b", item="new", closure=False)
    bs = [b for b in bs if re.search(r"blte/chunk\.rs$", b.file or "")]
    if not ctx.anchor(rule, bs, "ChunkData::new"):
        return
    b = bs[0]
    ctx.saw(b)
    comp = {c.bb for c in b.calls if c.bb in b.live_blocks() and re.search(r"compression::compress_chunk$", c.name)}
    if not ctx.anchor(rule, comp, "compress_chunk call in ChunkData::new"):
        return
    aggs = [i for (i, j, st) in b.stmts() if st["r"]["k"] == "Agg" and str(st["r"].get("adt", "")).endswith("ChunkData") and i in b.live_blocks()]
    stored = [i for i in aggs if i in b.reachable([0], avoid=comp)]
    # the mode == None test: a call of PartialEq::eq on CompressionMode / a discriminant comparison with the None variant
    from .lib import bool_switches
    none_edges = set()
    for c in b.calls:
        if re.search(r"\bPartialEq>?::eq$", c.orig_name or c.name) and "CompressionMode" in (c.full or ""):
            for (sbb, tt, ft) in bool_switches(b, c.dest[0]):
                none_edges.add((sbb, tt))
    ok = bool(stored) and bool(none_edges)
    for i in stored:
        # every path to the uncompressed construction passes the true edge of the mode test
        for (sbb, tt) in none_edges:
            r_ = b.reachable([0], avoid={tt} | comp)
            if i in r_ and i != tt:
                ok = False
    ctx.check(ok, rule, [b.id, "stored-only-for-none"], "bytes are kept as they are only when mode == None",
              "ChunkData::new can keep the caller's bytes unencoded on a path other than the `mode == None` edge (an extra shortcut, e.g. for empty input): the "
              "chunk then carries mode %s with a body that is not in that encoding - LZ4 lacks its size prefix, ZLib is not a zlib stream, E/F are accepted "
              "where they used to be refused - and the container does not decode" % "Z/4/E/F", b.loc(), sample={"stored_blocks": stored, "none_edges": sorted(none_edges)})


def r8_recorded_size_is_content_size(ctx):
    """the chunk table's decompressed size is the size of the CONTENT the chunk decodes to. For an encrypted chunk the builder holds two lengths - the
    caller's data and the inner payload it encrypts (mode byte + compressed data) - and only the first is the decoded size."""
    rule = "C01.R8"
    ctx.rule(rule, "BlteBuilder: the size handed to ChunkData::from_compressed for an encrypted chunk derives from the caller's data, not from the inner payload")
    n = 0
    for b in ctx.prog.find(self_ty=r"\bBlteBuilder\b", closure=False):
        if not re.search(r"blte/builder\.rs$", b.file or ""):
            continue
        inner = b.calls_matching(r"BlteBuilder::build_inner_payload$")
        fc = b.calls_matching(r"ChunkData::from_compressed$")
        if not inner or not fc:
            continue
        ctx.saw(b)
        from .lib import result_local
        inner_locals = set()
        for c in inner:
            inner_locals.add(c.dest[0])
            inner_locals |= payload_locals(b, c)
        for c in fc:
            if len(c.args) < 3 or op_local(c.args[2]) is None:
                continue
            n += 1
            sl = Slice(b, [op_local(c.args[2])], transparent=True)
            from_inner = bool(sl.locals & inner_locals)
            from_data = any(1 <= a <= b.argc and "u8" in (b.local_ty(a) or "") for a in sl.args)
            ctx.check(from_data and not from_inner, rule, [b.id, "recorded-size"], "the recorded size derives from the caller's data",
                      "%s records the length of the encrypted INNER payload (mode byte + compressed data) as the chunk's decompressed size: the chunk table then "
                      "states 65 for 64 content bytes, or 33 for 10000 zero bytes compressed inside - it is not the size the chunk decodes to" % ctx._stable(b.id),
                      c.loc(), sample={"in": b.id, "from_inner_payload": from_inner, "from_data_param": from_data})
    ctx.floor(rule, n, 2, "ChunkData::from_compressed calls in the encrypting builder methods")


def run(ctx):
    r8_recorded_size_is_content_size(ctx)
    r6_stream_status(ctx)
    r7_stored_only_in_mode_none(ctx)
    r4_relative_positions(ctx)
    r5_inner_payload(ctx)
    r1_block_index(ctx)
    r2_tables(ctx)
    r3_chunk_table(ctx)


from .selftest import for_families as _ff  # noqa: E402
selftest = _ff(['slice', 'taint'])
