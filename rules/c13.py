"""C13 - version-service queries fail over in order and cache only good answers (structural clauses)."""
import re
from .facts import op_local, Slice, place_fields, op_const
from .lib import (bool_switches, enum_switches, assigns_variant, must_pass, result_local, awaited, return_holders)
from .c05 import enum_switches_through
from .cachebooks import recv_fields

CRATES = ["cascette_protocol"]

EXPLANATION = (
    "Static rules over the MIR of cascette-protocol. R1: in query_with_fallback the three protocol calls are identified by the self "
    "field their receiver slices back to (tact_https, tact_http, ribbit_tcp); a later protocol is reachable from an earlier one only "
    "through its Err edge AND the true edge of should_retry() on that error, every Ok edge returns without touching a later protocol. "
    "R2: in query, cache.store_with_ttl is unreachable from the Err edges of the network call and of response.build(), its data derives "
    "from the built response, and every path from a successful network answer to an Ok return passes the store (TCP-only endpoints "
    "included). R3: validate_endpoint and cache.get dominate every network call; the cache-hit edge returns without one. R4: "
    "ProtocolError::should_retry returns true only for the transient variants and, for HttpStatus, only for 429/5xx constants; the "
    "catch-all is false. R5: in the Ribbit TCP read loop every content-sniffing decision that can end the read is evaluated inside the "
    "loop on the accumulated buffer (a verdict taken before all segments arrived cannot be independent of packet splits). TTL timing and "
    "full segmentation independence are not decided.")

ASSUMPTIONS = ["wasm32 variants of should_retry / query are not built offline and not analysed",
               "independence from TCP segmentation is decided only for its structural necessary condition (R5)"]

PROTO_FIELDS = ["tact_https", "tact_http", "ribbit_tcp"]
TRANSIENT_VARIANTS = {"Network", "ServerError", "RateLimited", "ServiceUnavailable", "Timeout"}
HTTP_STATUS = {
    "CONTINUE": 100, "SWITCHING_PROTOCOLS": 101, "PROCESSING": 102, "OK": 200, "CREATED": 201, "ACCEPTED": 202,
    "NON_AUTHORITATIVE_INFORMATION": 203, "NO_CONTENT": 204, "RESET_CONTENT": 205, "PARTIAL_CONTENT": 206, "MULTI_STATUS": 207,
    "ALREADY_REPORTED": 208, "IM_USED": 226, "MULTIPLE_CHOICES": 300, "MOVED_PERMANENTLY": 301, "FOUND": 302, "SEE_OTHER": 303,
    "NOT_MODIFIED": 304, "USE_PROXY": 305, "TEMPORARY_REDIRECT": 307, "PERMANENT_REDIRECT": 308, "BAD_REQUEST": 400,
    "UNAUTHORIZED": 401, "PAYMENT_REQUIRED": 402, "FORBIDDEN": 403, "NOT_FOUND": 404, "METHOD_NOT_ALLOWED": 405,
    "NOT_ACCEPTABLE": 406, "PROXY_AUTHENTICATION_REQUIRED": 407, "REQUEST_TIMEOUT": 408, "CONFLICT": 409, "GONE": 410,
    "LENGTH_REQUIRED": 411, "PRECONDITION_FAILED": 412, "PAYLOAD_TOO_LARGE": 413, "URI_TOO_LONG": 414,
    "UNSUPPORTED_MEDIA_TYPE": 415, "RANGE_NOT_SATISFIABLE": 416, "EXPECTATION_FAILED": 417, "IM_A_TEAPOT": 418,
    "MISDIRECTED_REQUEST": 421, "UNPROCESSABLE_ENTITY": 422, "LOCKED": 423, "FAILED_DEPENDENCY": 424, "TOO_EARLY": 425,
    "UPGRADE_REQUIRED": 426, "PRECONDITION_REQUIRED": 428, "TOO_MANY_REQUESTS": 429, "REQUEST_HEADER_FIELDS_TOO_LARGE": 431,
    "UNAVAILABLE_FOR_LEGAL_REASONS": 451, "INTERNAL_SERVER_ERROR": 500, "NOT_IMPLEMENTED": 501, "BAD_GATEWAY": 502,
    "SERVICE_UNAVAILABLE": 503, "GATEWAY_TIMEOUT": 504, "HTTP_VERSION_NOT_SUPPORTED": 505, "VARIANT_ALSO_NEGOTIATES": 506,
    "INSUFFICIENT_STORAGE": 507, "LOOP_DETECTED": 508, "NOT_EXTENDED": 510, "NETWORK_AUTHENTICATION_REQUIRED": 511,
}


def coroutine_of(ctx, rule, ty, item):
    bs = [b for b in ctx.prog.find(self_ty=r"\b%s\b" % ty, item=item, closure=True) if b.coroutine and b.krate == "cascette_protocol"]
    if not ctx.anchor(rule, bs, "%s::%s (async body)" % (ty, item)):
        return None
    return bs[0]


def proto_calls(b):
    """{field: Call} - protocol query calls by the self field their receiver derives from"""
    out = {}
    for c in b.calls:
        if c.bb not in b.live_blocks() or not re.search(r"::query$", c.name) or not c.args:
            continue
        fs = recv_fields(b, c)
        for f in PROTO_FIELDS:
            if f in fs and f not in out:
                out[f] = c
    return out


def result_edges(b, c):
    """(ok_target, err_target, landing_bb) of the (awaited) Result of call c, through match or `?`"""
    rl, rbb = result_local(b, c)
    for (sbb, m, other, via) in enum_switches_through(b, rl):
        if 0 in m and 1 in m:
            return m[0], m[1], rbb
    return None, None, rbb


def r1_failover(ctx):
    rule = "C13.R1"
    ctx.rule(rule, "HTTPS -> HTTP -> TCP, each step only after a retryable error; success returns at once")
    b = coroutine_of(ctx, rule, "RibbitTactClient", "query_with_fallback")
    if not b:
        return
    ctx.saw(b)
    pc = proto_calls(b)
    if not ctx.anchor(rule, len(pc) == 3 and pc, "three protocol calls (tact_https, tact_http, ribbit_tcp) in query_with_fallback"):
        return
    order = [pc[f] for f in PROTO_FIELDS]
    # order
    for i in range(2):
        a, nxt = order[i], order[i + 1]
        fwd = nxt.bb in b.reachable(b.succ[a.bb])
        back = a.bb in b.reachable(b.succ[nxt.bb])
        ctx.check(fwd and not back, rule, [b.id, "order", PROTO_FIELDS[i], PROTO_FIELDS[i + 1]], "%s is tried before %s" % (PROTO_FIELDS[i], PROTO_FIELDS[i + 1]),
                  "query_with_fallback does not try %s strictly before %s" % (PROTO_FIELDS[i], PROTO_FIELDS[i + 1]), nxt.loc(),
                  sample={"first": a.loc(), "then": nxt.loc()})
    retries = b.calls_matching(r"ProtocolError::should_retry$")
    okret = set(assigns_variant(b, "Ok"))
    errret = set(assigns_variant(b, "Err"))
    for i, f in enumerate(PROTO_FIELDS):
        c = pc[f]
        ok_e, err_e, land = result_edges(b, c)
        if not ctx.anchor(rule, ok_e is not None, "match on the result of the %s query" % f):
            continue
        later = {pc[g].bb for g in PROTO_FIELDS[i + 1:]}
        # success returns at once
        ok_reach = b.reachable([ok_e])
        ctx.check(not (ok_reach & later) and bool(ok_reach & okret), rule, [b.id, f, "ok-returns"], "a well-formed answer is returned immediately",
                  "query_with_fallback: after %s answered successfully a later protocol can still be queried / the answer is not returned" % f, c.loc(),
                  sample={"protocol": f, "ok_edge": ok_e})
        if not later:
            # last protocol: error edge returns Err
            ctx.check(bool(b.reachable([err_e]) & errret) and not (b.reachable([err_e]) & okret), rule, [b.id, f, "all-failed"], "all protocols failed -> Err",
                      "query_with_fallback can return Ok although every protocol failed", c.loc())
            continue
        # error edge: later protocol only through should_retry()==true on this error
        mine = [s for s in retries if s.bb in b.reachable([err_e]) and not any(s.bb in b.reachable(b.succ[x]) for x in later)]
        if not ctx.anchor(rule, mine, "should_retry() on the %s error" % f):
            continue
        s = mine[0]
        gated = must_pass(b, err_e, later, {s.bb})
        sw = bool_switches(b, s.dest[0])
        stop_ok = False
        for (sbb, tt, ft) in sw:
            fr = b.reachable([ft])
            if not (fr & later) and (fr & errret) and not (fr & okret):
                stop_ok = True
        # the error tested is this protocol's error
        err_local = None
        sl = Slice(b, [op_local(s.args[0])]) if s.args and op_local(s.args[0]) is not None else None
        rl, _ = result_local(b, c)
        from_this = bool(sl) and (rl in sl.locals)
        # ... and of this protocol ONLY: a value that can also be an earlier protocol's (always transient) error - `last_error.take().unwrap_or(e)` -
        # lets a definitive refusal of this protocol pass as retryable
        if from_this and sl is not None:
            slw = Slice(b, [op_local(s.args[0])], transparent=True)
            for g in PROTO_FIELDS[:i]:
                orl, _ = result_local(b, pc[g])
                if orl is not None and orl in slw.locals:
                    from_this = False
        ctx.check(gated and stop_ok and from_this, rule, [b.id, f, "retry-gate"], "fallback only after a retryable error of this protocol",
                  "query_with_fallback moves on from %s without consulting should_retry() on its error, or a non-retryable (definitive) refusal does "
                  "not stop the chain (gated=%s, refusal-stops=%s, tests-own-error=%s)" % (f, gated, stop_ok, from_this), c.loc(),
                  sample={"protocol": f, "should_retry": s.loc()})


def r2_r3_cache(ctx):
    rule = "C13.R2"
    ctx.rule(rule, "only good answers are cached, and every good answer is cached")
    ctx.rule("C13.R3", "endpoint validation and cache lookup precede the network; a hit short-circuits")
    b = coroutine_of(ctx, rule, "RibbitTactClient", "query")
    if not b:
        return
    ctx.saw(b)
    store = b.calls_matching(r"ProtocolCache::store_with_ttl$|ProtocolCache::store$")
    get = b.calls_matching(r"ProtocolCache::get$")
    val = b.calls_matching(r"client::validate_endpoint$")
    net = [c for c in b.calls if c.bb in b.live_blocks() and (re.search(r"RibbitTactClient::query_with_fallback$", c.name) or
                                                                 (re.search(r"::query$", c.name) and (recv_fields(b, c) & set(PROTO_FIELDS))))]
    build = b.calls_matching(r"CascFormat>?::build$|BpsvDocument.*::build$")
    if not (ctx.anchor(rule, store, "cache.store_with_ttl in query") and ctx.anchor(rule, net, "network calls in query") and
            ctx.anchor("C13.R3", get, "cache.get in query") and ctx.anchor("C13.R3", val, "validate_endpoint in query")):
        return
    st = store[0]
    okret = set(assigns_variant(b, "Ok"))
    rets = set(b.return_blocks())
    for n, c in enumerate(net):
        ok_e, err_e, land = result_edges(b, c)
        nm = c.name.split("::")[-1] + ("@" + "/".join(sorted(recv_fields(b, c) & set(PROTO_FIELDS))) if recv_fields(b, c) & set(PROTO_FIELDS) else "")
        if err_e is not None:
            ctx.check(st.bb not in b.reachable([err_e]), rule, [b.id, nm, "err-not-cached"], "failed answer is not cached",
                      "query stores into the cache on the error edge of %s: a failed/malformed answer is cached" % nm, c.loc())
        # every successful answer is cached before it is returned
        avoid = {st.bb} | ({err_e} if err_e is not None else set())
        start = [ok_e] if ok_e is not None else b.succ[land]
        leak = b.reachable(start, avoid=avoid) & rets
        # paths that leave through the Err edge of build()/store are failures, not successful answers
        fail_edges = set()
        for x in build + store:
            o2, e2, _ = result_edges(b, x)
            if e2 is not None:
                fail_edges.add(e2)
        leak = b.reachable(start, avoid=avoid | fail_edges) & rets
        ctx.check(not leak, rule, [b.id, nm, "ok-is-cached"], "successful answer passes the cache store before Ok",
                  "query returns the answer of %s without storing it in the cache (e.g. an early `return` for TCP-only endpoints): repeated "
                  "queries inside the TTL hit the network again and fail during an outage although a valid answer was obtained" % nm, c.loc(),
                  sample={"network_call": c.loc(), "store": st.loc()})
    for x in build:
        o2, e2, _ = result_edges(b, x)
        if e2 is not None:
            ctx.check(st.bb not in b.reachable([e2]), rule, [b.id, "build-err-not-cached"], "unserialisable answer is not cached",
                      "query stores although response.build() failed", x.loc())
    # stored data derives from the built response, which derives from the network answer
    if len(st.args) >= 3 and op_local(st.args[2]) is not None:
        sl = Slice(b, [op_local(st.args[2])], transparent=True)
        from_build = any(x in sl.calls for x in build)
        from_net = any((result_local(b, c)[0] in sl.locals) or (c in sl.calls) for c in net)
        ctx.check(from_build and from_net, rule, [b.id, "stored-data"], "cached bytes are the serialised network answer",
                  "the bytes stored in the cache do not derive from the network answer that is being returned", st.loc(),
                  sample={"store": st.loc(), "from_build": from_build, "from_network_answer": from_net})
    # R3
    g, v = get[0], val[0]
    for n, c in enumerate(net):
        ctx.check(b.dominates(g.bb, c.bb) and b.dominates(v.bb, c.bb) and b.dominates(v.bb, g.bb), "C13.R3", [b.id, "lookup-first", c.bb],
                  "validate_endpoint -> cache.get -> network", "query reaches the network without validating the endpoint / consulting the cache first", c.loc(),
                  sample={"validate": v.loc(), "cache_get": g.loc(), "network": c.loc()})
    # validate's Err edge cannot reach cache or network
    o2, e2, _ = result_edges(b, v)
    if ctx.anchor("C13.R3", e2 is not None, "handling of validate_endpoint's result"):
        r = b.reachable([e2])
        ctx.check(g.bb not in r and not any(c.bb in r for c in net), "C13.R3", [b.id, "invalid-endpoint-stops"], "invalid endpoint never reaches cache/network",
                  "query continues with an endpoint that validate_endpoint rejected", v.loc())
    # hit short-circuits: a return of Ok reachable from cache.get without passing the network
    hit_ret = b.reachable(b.succ[g.bb], avoid={c.bb for c in net}) & okret
    ctx.check(bool(hit_ret), "C13.R3", [b.id, "hit-short-circuits"], "a cache hit returns without network traffic",
              "query has no path that serves a cache hit without calling the network", g.loc())


def r4_classification(ctx):
    rule = "C13.R4"
    ctx.rule(rule, "should_retry: only transient variants / 429 / 5xx are retryable; catch-all false")
    bs = ctx.prog.find(self_ty=r"\bProtocolError\b", item="should_retry", closure=False)
    if not ctx.anchor(rule, bs, "ProtocolError::should_retry"):
        return
    b = bs[0]
    ctx.saw(b)
    adt = None
    for a in ctx.prog.adts.values():
        if a["name"].endswith("error::ProtocolError"):
            adt = a
    if not ctx.anchor(rule, adt, "enum ProtocolError"):
        return
    names = [v["name"] for v in adt["variants"]]
    # switch on the discriminant of self
    sws = []
    for i, j, s in b.stmts():
        if s["r"]["k"] == "Discr" and s["r"]["p"][0] == 1:
            for bi, blk in enumerate(b.blocks):
                t = blk["t"]
                if t["k"] == "Switch" and op_local(t["d"]) == s["p"][0]:
                    sws.append((bi, {int(v): tg for v, tg in t["v"]}, t["o"]))
    if not ctx.anchor(rule, sws, "match on self in should_retry"):
        return
    (sbb, m, other) = sws[0]
    true_blocks = set()
    false_blocks = set()
    hs = return_holders(b)
    for i, j, s in b.stmts():
        if s["p"][0] in hs and len(s["p"]) == 1 and s["r"]["k"] == "Use":
            v = op_const(s["r"]["o"][0])
            if v == 1:
                true_blocks.add(i)
            elif v == 0:
                false_blocks.add(i)
    uncond_true = []
    conditional = []
    for idx, name in enumerate(names):
        tg = m.get(idx, other)
        r = b.reachable([tg])
        t, f = bool(r & true_blocks), bool(r & false_blocks)
        computed = bool([c for c in b.calls if c.bb in r and not c.expn])
        if t and not f and not computed:
            uncond_true.append(name)
        elif computed or (t and f):
            conditional.append(name)
    bad = [n for n in uncond_true if n not in TRANSIENT_VARIANTS]
    ctx.check(not bad, rule, [b.id, "transient-variants"], "unconditionally retryable variants are transient ones",
              "should_retry() treats %s as retryable: a definitive refusal / malformed answer no longer stops the fallback chain and is retried" % bad,
              b.loc(), sample={"always_retryable": uncond_true, "conditional": conditional})
    ctx.check(set(conditional) <= {"Http", "HttpStatus"}, rule, [b.id, "conditional-variants"], "only Http / HttpStatus are conditionally retryable",
              "should_retry() computes retryability for unexpected variants %s" % sorted(set(conditional) - {"Http", "HttpStatus"}), b.loc())
    # catch-all false
    r_other = b.reachable([other])
    ctx.check(bool(r_other & false_blocks) and not (r_other & true_blocks), rule, [b.id, "catch-all"], "catch-all is non-retryable",
              "should_retry()'s catch-all arm is not `false`", b.loc())
    # HttpStatus constants compared in the HttpStatus arm (numeric pattern constants, or named StatusCode consts)
    codes = []
    hs_idx = names.index("HttpStatus") if "HttpStatus" in names else None
    arm = b.reachable([m.get(hs_idx, other)]) if hs_idx is not None else set()
    for i, j, st in b.stmts():
        if i not in arm:
            continue
        for o in st["r"].get("o", []):
            collect_status(b, o, codes)
    for c in b.calls:
        if c.bb in arm:
            for o in c.args:
                collect_status(b, o, codes)
    codes = sorted(set(codes))
    if ctx.anchor(rule, codes, "HTTP status constants in should_retry's HttpStatus arm"):
        bad = [c for c in codes if not (c == 429 or 500 <= c <= 599)]
        ctx.check(not bad, rule, [b.id, "status-table"], "retryable statuses are 429/5xx only",
                  "should_retry() lists HTTP status %s as retryable: a definitive refusal would be retried / fall through to the next protocol" % bad,
                  b.loc(), sample={"retryable_statuses": codes})


def collect_status(b, o, out):
    if o["k"] != "c":
        return
    cands = [o]
    if "promoted" in o:
        cands += b.promoted_consts(o["promoted"])
    for x in cands:
        txt = x.get("s", "") or ""
        mm = re.match(r"^(\d{3})_u16\b", txt)
        if mm:
            out.append(int(mm.group(1)))
            continue
        un = x.get("uneval", "") or ""
        mm = re.search(r"::([A-Z][A-Z_]+)$", un) or re.search(r"StatusCode::([A-Z][A-Z_]+)$", txt)
        if mm and mm.group(1) in HTTP_STATUS:
            out.append(HTTP_STATUS[mm.group(1)])
        elif mm and ("http::status" in un or "StatusCode" in txt):
            out.append(-1)


def r5_read_loop(ctx):
    rule = "C13.R5"
    ctx.rule(rule, "read-loop termination is decided inside the loop on the accumulated buffer")
    fam = [b for b in ctx.prog.bodies.values() if b.krate == "cascette_protocol" and b.item == "query_host_raw" and re.search(r"client/ribbit\.rs$", b.file)]
    if not ctx.anchor(rule, fam, "RibbitClient::query_host_raw"):
        return
    sniff_total = 0
    for b in sorted(fam, key=lambda x: x.id):
        reads = b.calls_matching(r"AsyncReadExt>?::read$|AsyncReadExt>?::read_buf$")
        sniffs = b.calls_matching(r"mime_parser::is_v1_mime_response$|::ends_with$|::windows$|::contains$")
        if not sniffs:
            continue
        ctx.saw(b)
        for n, s in enumerate(sniffs):
            sniff_total += 1
            in_loop = any(s.bb in b.reachable(b.succ[r.bb]) and r.bb in b.reachable(b.succ[s.bb]) for r in reads)
            # the sniffed value is the accumulation buffer (receives extend_from_slice in the same loop)
            ctx.check(in_loop, rule, [b.id, "sniff-in-loop", s.name.split("::")[-1], n], "format sniff is re-evaluated per received segment",
                      "query_host_raw evaluates %s outside the read loop: a verdict taken on the first segment is reused, so a short first packet makes a "
                      "V1-MIME answer end at the first blank line (the parsed answer depends on how TCP split the bytes)" % s.name.split("::")[-1], s.loc(),
                      sample={"sniff": s.loc(), "reads": [r.loc() for r in reads]})
    if sniff_total == 0:
        # no content-dependent exit at all: the loop ends on EOF / timeout / size cap only, which is the strongest form of independence from how the
        # transport split the bytes (the early `ends_with("\n\n")` exit was removed by a fix: commit dedde05)
        n_reads = sum(len(b.calls_matching(r"AsyncReadExt>?::read$|AsyncReadExt>?::read_buf$")) for b in fam)
        ctx.check(n_reads >= 1, rule, ["query_host_raw", "no-content-dependent-exit"], "the read loop has no content-dependent exit (ends on EOF / timeout / cap)",
                  "anchor-missing: no read call found in RibbitClient::query_host_raw", fam[0].loc(), sample={"reads": n_reads})
    else:
        ctx.floor(rule, sniff_total, 2, "content sniffs in the Ribbit read loop")


def r6_cdn_download(ctx):
    rule = "C13.R6"
    ctx.rule(rule, "CdnClient cache-then-fetch-then-store: lookup first, hit short-circuits, only a successful download is stored, and it is stored")
    n = 0
    for item in ("download", "download_archive_index"):
        bs = [b for b in ctx.prog.find(self_ty=r"\bCdnClient\b", item=item, closure=True) if b.coroutine and b.krate == "cascette_protocol"]
        if not ctx.anchor(rule, bs, "CdnClient::%s (async body)" % item):
            continue
        b = bs[0]
        ctx.saw(b)
        get = b.calls_matching(r"ProtocolCache::(get_bytes|get)$")
        store = b.calls_matching(r"ProtocolCache::(store_bytes|store_with_ttl|store)$")
        net = b.calls_matching(r"CdnClient::download_with_retry$")
        if not (ctx.anchor(rule, get, "cache lookup in %s" % item) and ctx.anchor(rule, store, "cache store in %s" % item) and ctx.anchor(rule, net, "network download in %s" % item)):
            continue
        n += 1
        g, st, nw = get[0], store[0], net[0]
        okret = set(assigns_variant(b, "Ok"))
        rets = set(b.return_blocks())
        ok_e, err_e, land = result_edges(b, nw)
        ctx.check(b.dominates(g.bb, nw.bb), rule, [b.id, "lookup-first"], "cache lookup dominates the download",
                  "CdnClient::%s downloads without consulting the cache first" % item, nw.loc(), sample={"lookup": g.loc(), "download": nw.loc()})
        ctx.check(bool(b.reachable(b.succ[g.bb], avoid={nw.bb}) & okret), rule, [b.id, "hit-short-circuits"], "a hit returns without network traffic",
                  "CdnClient::%s has no path serving a cache hit without downloading" % item, g.loc())
        if err_e is not None:
            ctx.check(st.bb not in b.reachable([err_e]), rule, [b.id, "err-not-stored"], "a failed download is never stored",
                      "CdnClient::%s stores into the cache on the download's error edge" % item, st.loc())
        start = [ok_e] if ok_e is not None else b.succ[land]
        o2, e2, _ = result_edges(b, st)
        leak = b.reachable(start, avoid={st.bb} | ({err_e} if err_e is not None else set())) & rets
        ctx.check(not leak, rule, [b.id, "ok-is-stored"], "a successful download passes the cache store before it is returned",
                  "CdnClient::%s returns downloaded bytes without storing them" % item, nw.loc())
        if len(st.args) >= 3 and op_local(st.args[2]) is not None:
            sl = Slice(b, [op_local(st.args[2])], transparent=True)
            rl, _ = result_local(b, nw)
            ctx.check(rl in sl.locals or nw in sl.calls, rule, [b.id, "stored-data"], "the stored bytes are the downloaded bytes",
                      "CdnClient::%s stores bytes that do not derive from the download" % item, st.loc())
    ctx.floor(rule, n, 2, "CdnClient download routines with a cache")


LOSSY = re.compile(r"reqwest::.*Response::text(_with_charset)?$|\bString::from_utf8_lossy$|to_string_lossy$|\bfrom_utf8_unchecked$")


def r8_parse_sees_the_bytes(ctx):
    """a malformed answer is an error, not a well-formed answer: the document parser is given the bytes that came off the wire. A lossy
    decoder in front of it (Response::text, from_utf8_lossy) turns invalid input into valid text with replacement characters, which then parses,
    is returned as Ok and cached"""
    rule = "C13.R8"
    ctx.rule(rule, "in the protocol clients the argument of BpsvDocument::parse / parse_v1_mime* does not derive from a lossy text decoder")
    n = 0
    for b in ctx.prog.bodies.values():
        if b.krate != "cascette_protocol" or not re.search(r"/client/|/transport/|mime_parser|v1_mime", b.file or ""):
            continue
        for c in b.calls:
            if c.bb not in b.live_blocks() or not re.search(r"BpsvDocument::parse$|bpsv::.*::parse$|parse_v1_mime_response$|parse_v1_mime_to_bpsv$|CascFormat>?::parse$", c.name):
                continue
            if not c.args or op_local(c.args[0]) is None:
                continue
            n += 1
            ctx.saw(b)
            sl = Slice(b, [op_local(c.args[0])], transparent=True)
            lossy = [x for x in sl.calls if LOSSY.search(x.name) or LOSSY.search(x.orig_name or "")]
            # through an awaited future: the text() future is created by a call and polled
            ctx.check(not lossy, rule, [b.id, "parse-input-not-lossy", c.name.split("::")[-1]], "the parser sees the wire bytes",
                      "%s hands %s a buffer that went through %s: invalid UTF-8 in the answer is replaced instead of rejected, so a malformed answer is returned "
                      "as well-formed and cached for the TTL" % (ctx._stable(b.id), c.name.split("::")[-1], lossy[0].name.split("::")[-1] if lossy else ""), c.loc())
    ctx.floor(rule, n, 2, "document parse calls in the protocol clients")


def run(ctx):
    r8_parse_sees_the_bytes(ctx)
    # "only good answers are cached": the Ribbit answer that reaches the cache is the one the V1-MIME parser accepted; its epilogue
    # checksum is the only integrity gate on that path (the signature is parsed, not verified)
    from . import c07
    c07.r10_skipped_only_when_absent(ctx, rule="C13.R7")
    r6_cdn_download(ctx)
    r1_failover(ctx)
    r2_r3_cache(ctx)
    r4_classification(ctx)
    r5_read_loop(ctx)


from .selftest import for_families as _ff  # noqa: E402
selftest = _ff(['gate', 'loop'])
