"""C02 - parsers fail closed: no explicit panic reachable, no unbounded input-derived allocation (structural clauses)."""
import re, sys, collections
from .facts import op_local, Slice, place_fields, op_const, TRANSPARENT_CALLS, strip_regions
from .lib import bool_switches, copies_of
from . import panicreach as pr

CRATES = None

EXPLANATION = (
    "Static rules over the whole workspace. Entry set (role discovery): every non-test function in the byte-format modules "
    "(cascette-formats; client-storage index/, kmt/key_state, lru/lru_file, shmem/, build_info, compaction, local_header; protocol "
    "mime_parser and v1_mime) whose name matches parse*/from_bytes/read_options/decompress*/apply_patch*/deserialize/open/load*/read_*/"
    "from_compressed/detect...; the closure is every workspace body reachable from them in the call graph (dependency-aware "
    "over-approximate dispatch). R1 (E-reach): no explicit panic API (Option/Result unwrap/expect, panic!/unreachable!/assert!/todo!) in "
    "the closure, except discharge idioms recognised structurally (constant-width try_into) or listed by exact key with a reason. R2 "
    "(E-slice taint): every allocation-size operand of a sink (Vec::with_capacity, vec![x; n], reserve, resize, String/HashMap::"
    "with_capacity, binrw count into Vec<u8>, lz4 decompress size) whose backward slice reaches an input-derived integer wider than 16 "
    "bits (from_{le,be}_bytes / integer reads / fields of BinRead structs / integer parameters fed that way) needs a bound: min/clamp, a "
    "dominating ordering comparison on the value (or on the same struct field inside a validate()-style callee that ran before), or an "
    "(in)equality against a length-derived value or a pinning constant. Length-derived values (len(), metadata, seek/stream_position) are "
    "never tainted. Sufficiency of a bound is not judged; its complete absence is the violation. R3 (E-bounds, rules/bounds.py): a relational "
    "abstract interpretation (linear expressions over immutable value atoms, facts `lin <= 0`, branch / assert refinement, semantic join, "
    "lengths of slices / arrays / vec![x; n] / sub-slices, Range iteration, min/max/saturating_sub/checked_* models, linear return summaries, "
    "validator postconditions about struct fields, and preconditions delegated to in-closure callers) tries to PROVE every slice / array / Vec "
    "index, range index, split_at and copy_from_slice in the closure in bounds. Proven sites are discharged; an unproven site whose index "
    "derives from parser input (bytes loaded from a [u8], from_*_bytes / read_* results, fields of parsed header structs) is a violation "
    "unless discharged by exact key with the arithmetic argument written down; unproven sites that do not derive from input are counted as "
    "not decided. Integer overflow (Assert Overflow) is still not decided.")

ASSUMPTIONS = ["integer overflow and loop termination are NOT decided; index bounds are decided only where E-bounds proves them or the index derives from input (R3)",
               "E-bounds treats integers as mathematical (no wrap-around): an index computed in u8/u32 arithmetic that wraps is outside its model",
               "a helper's precondition is checked at its in-closure call sites only (external callers of pub helpers are not byte-parser paths)",
               "taint is per (struct, field) / per local; flows through heap containers are not followed"]

ENTRY = re.compile(r"^(parse\w*|from_bytes|from_mapped|read_options|decompress\w*|apply_patch\w*|deserialize|open|load\w*|from_compressed|from_reader|read_\w+|from_data|from_slice|from_str|detect|read|extract_\w+|is_v1_mime_response)$")
FILES = re.compile(r"cascette-formats/src/|cascette-client-storage/src/(index/|kmt/key_state|lru/lru_file|lru/mod|shmem/|build_info|storage/compaction|storage/local_header)|cascette-protocol/src/(mime_parser|v1_mime/)")

# discharged by reading, one named site each (key -> reason)
DISCHARGED = {
    "C02.R1|cascette_formats::archive::index::<ChunkedArchiveIndex>::load_chunk|Option::expect":
        "Option read back right after `self.chunks[chunk_idx] = Some(entries)` on the only path where it was None; cannot be None",
    "C02.R1|cascette_formats::root::header::<RootHeader>::read|panic_fmt":
        "unreachable!(\"V1 has no header\") tests the `version` ARGUMENT, not input bytes; the only parser call site (RootFile::parse_from_reader) "
        "is dominated by `detected_version.has_header()`, which is false exactly for V1",
}

# R2 sites triaged as NOT defects (the check was wrong, not the code): each was examined with a concrete hostile input
# against the real parser in a scratch worktree (counting allocator); one named site each, with the bound that the rule's
# idiom table does not recognise.
DISCHARGED_R2 = {
    "C02.R2|cascette_formats::encoding::page::<EncodingPage as BinRead>::read_options|vec-from-elem|binrw args passed by the parent parser":
        "EncodingPage<T> has no caller in the workspace; the largest header-derived argument any parser could pass is the u16 page size in "
        "KiB (<= 64 MiB, paid once per page actually present) - the 16-bit exemption of the rule, lost through the usize argument",
}

SINKS = [
    (re.compile(r"\bVec::<T>::with_capacity$|\bVec::<T, A>::with_capacity_in$"), 0, "Vec::with_capacity"),
    (re.compile(r"\bvec::from_elem$"), 1, "vec![x; n]"),
    (re.compile(r"\bVec::<T, A>::(reserve|reserve_exact)$"), 1, "Vec::reserve"),
    (re.compile(r"\bVec::<T, A>::resize$"), 1, "Vec::resize"),
    (re.compile(r"\bString::with_capacity$"), 0, "String::with_capacity"),
    (re.compile(r"\bString::reserve$"), 1, "String::reserve"),
    (re.compile(r"\bHashMap::<K, V>::with_capacity$|\bHashMap::<K, V, S>::with_capacity_and_hasher$"), 0, "HashMap::with_capacity"),
    (re.compile(r"\bBinaryHeap::<T>::with_capacity$|\bVecDeque::<T>::with_capacity$"), 0, "with_capacity"),
    (re.compile(r"^lz4_flex::block::decompress_safe::decompress$|^lz4_flex::block::decompress"), 1, "lz4 decompress(size)"),
    (re.compile(r"::with_capacity$"), 0, "with_capacity (workspace)"),
]
LEN_SRC = re.compile(r"::len$|Metadata::len$|\bSeek>?::(seek|stream_position|stream_len)$|Cursor::<T>::position$|::remaining$|::capacity$|::count$|entry_count_from_file_size$")
INPUT_SRC = re.compile(r"\bnum::<impl \w+>::from_(le|be|ne)_bytes$|\bBinRead>?::(read_options|read_le|read_be|read_ne|read|read_args|read_le_args|read_be_args)$|"
                       r"BinReaderExt>?::read_(le|be|ne|type)|byteorder::.*::read_\w+$|ReadBytesExt>?::read_\w+$|::read_u(8|16|24|32|40|64)\w*$|::read_var\w*$|::parse::<u\d+>$|str>?::parse$")
WIDE = re.compile(r"^(u32|u64|u128|usize|i32|i64|i128|isize)$")
ARITH = re.compile(r"\bnum::<impl \w+>::(wrapping_\w+|saturating_\w+|checked_\w+|overflowing_\w+|pow|div_ceil|next_power_of_two|abs)$|\bInto<U>>?::into$|\bFrom<.*>>?::from$|\bTryFrom<.*>>?::try_from$|\bTryInto<.*>>?::try_into$|"
                   r"\bResult::<T, E>::(unwrap|expect|unwrap_or|unwrap_or_default|map_err|unwrap_or_else|ok)$|\bOption::<T>::(unwrap|expect|unwrap_or|unwrap_or_default|unwrap_or_else|ok_or|ok_or_else)$|\bTry>?::branch$|"
                   r"\bClone>?::clone$|\bDeref>?::deref$|::to_owned$")
CLAMP = re.compile(r"::(min|clamp)$")


def entries_and_closure(ctx):
    prog = ctx.prog
    ents = [b.id for b in prog.bodies.values() if not b.root and FILES.search(b.file) and b.item and ENTRY.match(b.item)]
    cl = prog.closure_of(ents)
    return ents, cl


def r1_no_panic(ctx, ents, cl):
    rule = "C02.R1"
    ctx.rule(rule, "no explicit panic API reachable from any byte-parser entry")
    prog = ctx.prog
    ctx.floor(rule, len(ents), 150, "parser entry bodies")
    n = 0
    asserts = collections.Counter()
    for bid in sorted(cl):
        b = prog.bodies[bid]
        ctx.saw(b)
        live = b.live_blocks()
        for i in live:
            t = b.blocks[i]["t"]
            if t["k"] == "Assert":
                asserts[t.get("m", "?").split("(")[0]] += 1
        for c in pr.panic_sites(b):
            n += 1
            key = ctx._stable("|".join([rule, bid, pr.kind_of(c)]))
            if pr.infallible_try_into(b, c):
                ctx.ok(rule, [bid, pr.kind_of(c), "infallible"], "constant-width try_into cannot fail", c.loc(), sample={"site": c.loc(), "idiom": "x[a..a+N].try_into()"})
                continue
            if key in DISCHARGED:
                ctx.ok(rule, [bid, pr.kind_of(c), "discharged"], "discharged by reading: " + DISCHARGED[key], c.loc(), sample={"site": c.loc(), "reason": DISCHARGED[key]})
                continue
            ctx.bad(rule, [bid, pr.kind_of(c)],
                    "%s at %s is reachable from a byte-parser entry (%s): input that reaches it aborts the caller instead of returning an error" %
                    (c.name.split("::")[-1] if "panicking" in c.name else pr.kind_of(c), c.loc(), " -> ".join(x.split(" (")[0].split("::")[-2] + "::" + x.split(" (")[0].split("::")[-1] for x in prog.chain(cl, bid)[-3:])), c.loc())
    ctx.ok(rule, ["closure"], "closure scanned", None, sample={"entries": len(ents), "bodies_in_closure": len(cl), "explicit_panic_sites": n,
                                                             "not_analysed_assert_terminators": dict(asserts)})
    ctx.info("C02 Assert terminators in the parser closure: %s (BoundsCheck: decided by R3; Overflow: narrow / parsed-64-bit input by R4, the rest not decided; "
             "division by zero: not decided)" % dict(asserts))


class Taint:
    def __init__(self, what, wide, ident, loc=None):
        self.what = what
        self.wide = wide
        self.ident = ident
        self.loc = loc


def binread_adts(prog):
    out = set()
    for im in prog.impls:
        if (im.get("trait") or "").endswith("binread::BinRead") and im.get("self_adt"):
            out.add(im["self_adt"])
    return out


def int_width_wide(ty):
    ty = strip_regions(ty or "")
    ty = ty.lstrip("&")
    m = re.match(r"^core::option::Option<(.*)>$", ty)
    if m:
        ty = m.group(1)
    return bool(WIDE.match(ty))


def classify_sources(prog, b, sl, br_adts, depth=0):
    """leaf sources of a size slice: returns (taints, len_derived_only)"""
    taints = []
    for c in sl.calls:
        if INPUT_SRC.search(c.name) or INPUT_SRC.search(c.orig_name):
            ty = b.local_ty(c.dest[0])
            inner = re.search(r"(u8|u16|u32|u64|u128|usize|i8|i16|i32|i64|i128|isize)", ty)
            w = bool(inner) and bool(WIDE.match(inner.group(1)))
            taints.append(Taint("value read from input by %s" % c.name.split("::")[-1], w, ("local", b.id, c.dest[0]), c.loc()))
    for p in sl.places:
        fl = [e for e in p[1:] if isinstance(e, dict) and "f" in e and e.get("a")]
        if fl:
            last = fl[-1]
            if last["a"] in br_adts or re.search(r"Header|Footer|Info$|Entry$", last["a"].split("::")[-1]):
                if last["a"].startswith(("cascette_", "verif_selftest")):
                    w = int_width_wide(last.get("t", ""))
                    taints.append(Taint("field %s.%s (parsed from input)" % (last["a"].split("::")[-1], last["n"]), w, ("field", last["a"], last["n"])))
    # accessor-like workspace callees: small integer-returning functions whose body (incl. closures) reads a field of a parsed
    # struct, e.g. header.entry_count(), file.estimate_decompressed_size()
    for c in sl.calls:
        if c.id in prog.bodies and c.args and not ARITH.search(c.name) and not LEN_SRC.search(c.name) and depth < 1:
            tb = prog.bodies[c.id]
            if not re.match(r"^(u32|u64|usize|i64|u128)$", tb.local_ty(0) or ""):
                continue
            fam = list(prog.family(tb))
            if sum(len(x.blocks) for x in fam) > 120:
                continue
            # one more level: small workspace functions the accessor calls or passes by reference (`header.as_ref().map_or_else(.., RootHeader::total_files)`)
            extra = []
            for fb in fam:
                ids = {cc.id for cc in fb.calls if cc.id in prog.bodies}
                for i_, j_, st_ in fb.stmts():
                    for o_ in st_["r"].get("o", []):
                        if o_.get("k") == "fn" and o_["fn"].get("id") in prog.bodies:
                            ids.add(o_["fn"]["id"])
                for cc in fb.calls:
                    for a_ in cc.args:
                        if a_.get("k") == "fn" and a_["fn"].get("id") in prog.bodies:
                            ids.add(a_["fn"]["id"])
                for id_ in ids:
                    xb = prog.bodies[id_]
                    if xb.krate.startswith(("cascette_", "verif_selftest")) and len(xb.blocks) <= 12 and xb not in fam and xb not in extra:
                        extra.append(xb)
            fam = fam + extra
            best = None
            for fb in fam:
                for i, j, st in fb.stmts():
                    r = st["r"]
                    plist = [o["p"] for o in r.get("o", []) if o["k"] in ("cp", "mv")] + ([r["p"]] if "p" in r else [])
                    for p in plist:
                        fl = [e for e in p[1:] if isinstance(e, dict) and "f" in e and e.get("a")]
                        if fl and fl[-1]["a"].startswith(("cascette_", "verif_selftest")) and (fl[-1]["a"] in br_adts or re.search(r"Header|Footer|Info|V\d$", fl[-1]["a"].split("::")[-1])):
                            w = int_width_wide(fl[-1].get("t", ""))
                            if best is None or (w and not best[1]):
                                best = (fl[-1], w)
            if best:
                last, w = best
                taints.append(Taint("accessor %s() over field %s.%s" % (tb.item, last["a"].split("::")[-1], last["n"]), w, ("field", last["a"], last["n"])))
    # binrw args: the count a parent parser passes to a child BinRead impl
    root = prog.bodies.get(b.root) if b.root else b
    if root is not None and root.item == "read_options" and (root.trait or "").endswith("binread::BinRead"):
        ai = next((i for i in range(1, root.argc + 1) if root.local_name(i) in ("args", "_args") or re.match(r"^\(", root.local_ty(i) or "")), root.argc)
        for p in sl.places:
            if (p[0] == ai and root is b) or (b.root and any(isinstance(e, dict) and str(e.get("n", "")).startswith("upvar:args") for e in p[1:])):
                fl = [e for e in p[1:] if isinstance(e, dict) and "f" in e]
                t = fl[-1].get("t", "") if fl else b.local_ty(ai)
                if int_width_wide(t) or re.search(r"\((usize|u32|u64)", t or ""):
                    taints.append(Taint("binrw args passed by the parent parser (%s)" % strip_regions(t), True, ("args", root.id, str(fl[-1].get("f")) if fl else "0", p[0])))
        for l in sl.locals:
            if l == ai and root is b and re.search(r"\((usize|u32|u64)", b.local_ty(ai) or ""):
                if not any(t.ident[0] == "args" for t in taints):
                    taints.append(Taint("binrw args passed by the parent parser (%s)" % b.local_ty(ai), True, ("args", root.id, "0", ai)))
    return taints


def size_slice(b, op):
    l = op_local(op)
    if l is None:
        return None
    return Slice(b, [l], transparent=ARITH)


def has_clamp(b, sl):
    for c in sl.opaque_calls + sl.calls:
        if CLAMP.search(c.name) or re.search(r"\bOrd>?::(min|clamp)$", c.orig_name):
            return c
    return None


def slice_with_clamps(b, op):
    """size slice that also follows min/clamp operands (so the clamp call itself is visible in .calls)"""
    l = op_local(op)
    if l is None:
        return None
    tr = re.compile(ARITH.pattern + r"|::(min|max|clamp)$")
    return Slice(b, [l], transparent=tr)


def guard_on(prog, b, sink, sl, taints, depth=0):
    """a bound on the tainted value before the sink: ordering comparison / pinning (in)equality dominating the sink in this
    body, or inside a callee that received the value or its struct before the sink"""
    idents = {t.ident for t in taints}
    fields = {(i[1], i[2]) for i in idents if i[0] == "field"}
    watch = set(sl.locals)
    for i, j, s in b.stmts():
        r = s["r"]
        if r["k"] != "Bin" or r["op"] not in ("Lt", "Le", "Gt", "Ge", "Eq", "Ne"):
            continue
        if not b.dominates(i, sink.bb):
            continue
        sides = []
        for o in r["o"]:
            l = op_local(o)
            hit = False
            if l is not None:
                s2 = Slice(b, [l], transparent=ARITH)
                if s2.locals & watch and (mentions(s2, fields) or any(t.ident[0] == "local" and t.ident[2] in s2.locals for t in taints)
                                          or any(t.ident[0] == "args" and t.ident[3] in s2.locals for t in taints)):
                    hit = True
                if o["k"] in ("cp", "mv") and field_of(o["p"]) in fields:
                    hit = True
            sides.append(hit)
        if not any(sides):
            continue
        other = r["o"][1] if sides[0] else r["o"][0]
        if r["op"] in ("Lt", "Le", "Gt", "Ge"):
            return "ordering comparison at %s:%d" % (b.file, s["l"])
        # Eq/Ne: pins only when the sink is unreachable from the UNEQUAL edge, and the other side is a constant != 0 or length-derived
        oc = op_const(other)
        ol = op_local(other)
        lenlike = ol is not None and any(LEN_SRC.search(c.name) for c in Slice(b, [ol], transparent=ARITH).calls)
        if (oc is not None and oc != 0) or lenlike:
            for (sbb, tt, ft) in bool_switches(b, s["p"][0]):
                uneq = tt if r["op"] == "Ne" else ft
                if sink.bb not in b.reachable([uneq], avoid={sbb}):
                    return "pinning (in)equality at %s:%d" % (b.file, s["l"])
    # idiom (v): `seek(SeekFrom::End(-(..size..)))?` dominating the sink: a size that does not fit in the file makes the seek fail
    for c in b.calls:
        if c.bb != sink.bb and b.dominates(c.bb, sink.bb) and re.search(r"\bSeek>?::seek$", c.name) and len(c.args) >= 2 and op_local(c.args[1]) is not None:
            s2 = Slice(b, [op_local(c.args[1])], transparent=ARITH)
            is_end = any(o.get("variant") == "End" for o in s2.consts)
            neg = any(o[0] in ("Neg", "Sub", "SubWithOverflow") for o in s2.ops)
            if is_end and neg and (s2.locals & watch) and (mentions(s2, fields) or any(t.ident[0] == "local" and t.ident[2] in s2.locals for t in taints)):
                from .c05 import enum_switches_through
                for (ebb, m, other, via) in enum_switches_through(b, c.dest[0]):
                    if 1 in m and sink.bb not in b.reachable([m[1]]):
                        return "seek(SeekFrom::End(-size))? at %s (a size that does not fit in the file fails the seek)" % c.loc()
    # idiom (vi): a dominating `for _ in 0..N` loop over the same value whose body reads from the input with `?`: N is bounded
    # by what the input holds when the loop has run to completion
    g = bounding_loop(b, sink.bb, watch, fields, taints)
    if g:
        return g
    # callee validators that ran before the sink on the same struct / value
    if depth < 2:
        for c in b.calls:
            if c.bb == sink.bb or not b.dominates(c.bb, sink.bb) or c.id not in prog.bodies:
                continue
            tb = prog.bodies[c.id]
            passes = False
            for a in c.args:
                l = op_local(a)
                if l is None:
                    continue
                s2 = Slice(b, [l], transparent=ARITH)
                if s2.locals & watch or mentions(s2, fields) or adt_of_args(b, l, fields):
                    passes = True
            if not passes:
                continue
            g = callee_bounds(prog, tb, fields, depth + 1)
            if g:
                return "bound inside %s (%s)" % (tb.id.split("::")[-1], g)
    return None


READ_CALL = re.compile(r"\bRead>?::read_exact$|\bBinRead>?::read\w*$|BinReaderExt>?::read_\w+$|\bRead>?::read$")


def bounding_loop(b, before_bb, watch, fields, taints):
    """a `0..N` loop (N derived from the tainted value) that has run to completion before `before_bb` and reads input with `?`
    in every iteration"""
    for nx in b.calls:
        if not re.search(r"\bIterator>?::next$", nx.orig_name or nx.name) or "Range<" not in nx.full:
            continue
        # loop exit (None edge) dominates the sink
        exit_e = None
        for sb in b.succ[nx.bb]:
            for (v, tg) in b.switch_edges(sb):
                if v == 0:
                    exit_e = tg
        if exit_e is None or not (before_bb in b.reachable([exit_e]) and b.dominates(nx.bb, before_bb)):
            continue
        if before_bb in b.reachable(b.succ[nx.bb], avoid={exit_e}) and before_bb != exit_e:
            # the sink is inside the loop body, not after it
            continue
        rs = Slice(b, [op_local(nx.args[0])], transparent=re.compile(ARITH.pattern + r"|\bIntoIterator>?::into_iter$"))
        if not ((rs.locals & watch) and (mentions(rs, fields) or any(t.ident[0] in ("local", "args") and t.ident[-1] in rs.locals for t in taints))):
            continue
        body_blocks = b.reachable(b.succ[nx.bb], avoid={exit_e})
        reads = [c for c in b.calls if c.bb in body_blocks and (READ_CALL.search(c.name) or READ_CALL.search(c.orig_name))]
        if reads:
            return "bounding loop at %s reads input %d time(s) per iteration with `?`" % (nx.loc(), len(reads))
    return None


def field_of(place):
    fl = [e for e in place[1:] if isinstance(e, dict) and "f" in e and e.get("a")]
    if fl:
        return (fl[-1]["a"], fl[-1]["n"])
    return None


def mentions(sl, fields):
    for p in sl.places:
        if field_of(p) in fields:
            return True
    return False


def adt_of_args(b, l, fields):
    ty = b.local_ty(l)
    return any(f[0].split("::")[-1] in ty for f in fields)


def callee_bounds(prog, tb, fields, depth):
    """does the callee (or its callees) compare one of `fields` (or, for free parameters, its integer parameter) with an ordering
    comparison / pinning inequality?"""
    for fb in [tb] + [prog.bodies[t] for (t, how, c) in prog.edges.get(tb.id, []) if depth < 2 and t in prog.bodies and prog.bodies[t].krate == tb.krate][:12]:
        for i, j, s in fb.stmts():
            r = s["r"]
            if r["k"] == "Bin" and r["op"] in ("Lt", "Le", "Gt", "Ge", "Ne", "Eq"):
                for k, o in enumerate(r["o"]):
                    hit = False
                    if o["k"] in ("cp", "mv") and field_of(o["p"]) in fields:
                        hit = True
                    l = op_local(o)
                    if not hit and l is not None and mentions(Slice(fb, [l], transparent=ARITH), fields):
                        hit = True
                    if hit:
                        if r["op"] in ("Lt", "Le", "Gt", "Ge"):
                            return "%s:%d" % (fb.file, s["l"])
                        other = r["o"][1 - k]
                        oc = op_const(other)
                        ol = op_local(other)
                        lenlike = ol is not None and any(LEN_SRC.search(c.name) for c in Slice(fb, [ol], transparent=ARITH).calls)
                        from_param = ol is not None and any(1 <= x <= fb.argc for x in Slice(fb, [ol], transparent=ARITH).locals)
                        if (oc is not None and oc != 0) or lenlike or from_param:
                            return "%s:%d" % (fb.file, s["l"])
    return None


def binrw_count_sinks(prog, b):
    """(call, size operand, what) for `#[br(count = n)]` on Vec<u8> fields in a derived BinRead body"""
    out = []
    root = prog.bodies.get(b.root) if b.root else b
    adt = prog.adts.get(root.self_adt) if root and root.self_adt else None
    if not adt:
        return out
    ftypes = {}
    for v in adt["variants"]:
        for f in v["fields"]:
            ftypes[f["n"]] = f["ty"]
    for c in b.calls:
        if re.search(r"VecArgsBuilder::<.*>::count$", c.name) and c.bb in b.live_blocks():
            # field name from the finalize destination `__binrw_generated_args_<field>`
            fname = None
            for x in b.calls:
                if re.search(r"VecArgsBuilder::<.*>::finalize$", x.name) and x.bb in b.reachable(b.succ[c.bb]):
                    nm = b.local_name(x.dest[0])
                    m = re.match(r"__binrw_generated_args_(\w+)$", nm or "")
                    if m:
                        fname = m.group(1)
                        break
            if fname and re.search(r"Vec<u8>", ftypes.get(fname, "")):
                out.append((c, c.args[1], "binrw count -> Vec<u8> field `%s` (reserve_exact(n))" % fname))
    return out


def r2_alloc(ctx, ents, cl):
    rule = "C02.R2"
    ctx.rule(rule, "no input-derived (wider than 16 bit) allocation size without a bound")
    prog = ctx.prog
    br = binread_adts(prog)
    n_sinks = 0
    n_tainted = 0
    for bid in sorted(cl):
        b = prog.bodies[bid]
        live = b.live_blocks()
        sinks = []
        for c in b.calls:
            if c.bb not in live:
                continue
            for rx, argi, what in SINKS:
                if rx.search(c.name):
                    if what == "with_capacity (workspace)" and not (c.id or "").startswith("cascette_"):
                        continue
                    if len(c.args) > argi:
                        sinks.append((c, c.args[argi], what))
                    break
        sinks += binrw_count_sinks(prog, b)
        for (c, nop, what) in sinks:
            n_sinks += 1
            sl = slice_with_clamps(b, nop)
            if sl is None:
                continue
            taints = classify_sources(prog, b, sl, br)
            # integer parameters: one level up
            params = [p for p in sl.locals if 1 <= p <= b.argc and re.match(r"^(u32|u64|usize|i64|i32)$", b.local_ty(p))]
            via_param = []
            if params and not b.root:
                for (s_id, how, cc) in prog.callers.get(b.id, []):
                    if cc is None or s_id not in cl:
                        continue
                    cb = prog.bodies[s_id]
                    for p in params:
                        if p - 1 < len(cc.args) and op_local(cc.args[p - 1]) is not None:
                            csl = slice_with_clamps(cb, cc.args[p - 1])
                            cts = classify_sources(prog, cb, csl, br)
                            cts = [t for t in cts if t.wide]
                            if cts and not has_clamp(cb, csl) and not guard_on(prog, cb, cc, csl, cts):
                                via_param.append((cb, cc, cts, p))
            wide = [t for t in taints if t.wide]
            if not wide and not via_param:
                continue
            n_tainted += 1
            ctx.saw(b)
            ctx.call_sites += 1
            cl_call = has_clamp(b, sl)
            g = None
            if wide:
                g = ("clamp %s" % cl_call.name.split("::")[-1]) if cl_call else guard_on(prog, b, c, sl, wide)
            if wide and g:
                ctx.ok(rule, [bid, what.split(" ")[0], c.bb], "bounded: %s" % g, c.loc(), sample={"sink": what, "at": c.loc(), "source": wide[0].what, "bound": g})
                continue
            if wide and not b.root:
                # bound established by every caller before the call (bounding loop on the same struct field)
                cs = [(prog.bodies[s_id], cc) for (s_id, how, cc) in prog.callers.get(b.id, []) if cc is not None and s_id in prog.bodies]
                fields_w = {(t.ident[1], t.ident[2]) for t in wide if t.ident[0] == "field"}
                if cs and fields_w and all(caller_bounds(cb, cc, fields_w) for (cb, cc) in cs):
                    g = caller_bounds(cs[0][0], cs[0][1], fields_w)
                    ctx.ok(rule, [bid, sink_tag(what), c.bb], "bounded in the caller: %s" % g, c.loc(), sample={"sink": what, "at": c.loc(), "bound": g})
                    continue
            if wide and all(t.ident[0] == "args" for t in wide):
                # a child BinRead impl sized by its binrw arguments: what every parser caller passes decides (the child cannot know
                # how much input is left); a caller that passes a wide input-derived value without bounding it is the violation
                root = prog.bodies.get(b.root) if b.root else b
                ai = next((i for i in range(1, root.argc + 1) if root.local_name(i) in ("args", "_args") or re.match(r"^\(", root.local_ty(i) or "")), root.argc)
                cs = [(prog.bodies[s_id], cc) for (s_id, how, cc) in prog.callers.get(root.id, []) if cc is not None and s_id in prog.bodies and s_id in cl
                      and (prog.bodies[s_id].root or s_id) != root.id]
                unb = []
                for (cb, cc) in cs:
                    if ai - 1 >= len(cc.args) or op_local(cc.args[ai - 1]) is None:
                        continue
                    csl = slice_with_clamps(cb, cc.args[ai - 1])
                    cts = [t for t in classify_sources(prog, cb, csl, br) if t.wide]
                    if cts and not has_clamp(cb, csl) and not guard_on(prog, cb, cc, csl, cts):
                        unb.append((cb, cc, cts))
                if cs and not unb:
                    ctx.ok(rule, [bid, sink_tag(what), "args-bounded-by-callers", c.bb], "every parser caller bounds (or does not derive from input) the binrw argument",
                           c.loc(), sample={"sink": what, "at": c.loc(), "callers": [ctx._stable(cb.id) for (cb, cc) in cs]})
                    continue
                if unb:
                    cb, cc, cts = unb[0]
                    ctx.bad(rule, [bid, sink_tag(what), "args <- %s" % ctx._stable(cb.id).split("::")[-1], cts[0].what.split(" (")[0]],
                            "%s sizes %s at %s from its binrw argument, and %s passes %s as that argument at %s without bounding it by what the input holds: a few "
                            "header bytes make the parser request gigabytes" % (bid, what, c.loc(), ctx._stable(cb.id), cts[0].what, cc.loc()), c.loc(),
                            {"caller": cb.id, "call": cc.loc()})
                    continue
            if wide:
                k0 = ctx._stable("|".join([rule, bid, sink_tag(what), wide[0].what.split(" (")[0]]))
                if k0 in DISCHARGED_R2:
                    ctx.ok(rule, [bid, sink_tag(what), "discharged", c.bb], "discharged by reading: " + DISCHARGED_R2[k0], c.loc(),
                           sample={"sink": what, "at": c.loc(), "reason": DISCHARGED_R2[k0]})
                    continue
                ctx.bad(rule, [bid, sink_tag(what), wide[0].what.split(" (")[0]],
                        "%s sizes %s at %s from %s with no upper bound on any path (no min/clamp, no ordering comparison, no pinning check): a few header bytes make "
                        "the parser request gigabytes and abort the process" % (bid, what, c.loc(), "; ".join(sorted({t.what for t in wide}))[:200]), c.loc(),
                        {"sources": [t.what for t in wide]})
                continue
            # only via parameter
            p_guard = cl_call or param_guard(b, c, sl, params)
            if p_guard:
                ctx.ok(rule, [bid, what.split(" ")[0], c.bb], "parameter bounded in the callee", c.loc(), nontrivial=False)
                continue
            cb, cc, cts, p = via_param[0]
            ctx.bad(rule, [bid, sink_tag(what), "param %s <- %s" % (b.local_name(p), cts[0].what.split(" (")[0])],
                    "%s sizes %s at %s from its parameter `%s`, which %s passes as %s without any bound in either function" %
                    (bid, what, c.loc(), b.local_name(p), cb.id.split("::")[-1], cts[0].what), c.loc(), {"caller": cb.id, "call": cc.loc()})
    ctx.floor(rule, n_sinks, 80, "allocation sinks in the parser closure")
    ctx.ok(rule, ["sinks"], "sinks scanned", None, sample={"allocation_sinks_in_closure": n_sinks, "with_wide_input_derived_size": n_tainted})


def caller_bounds(cb, cc, fields):
    """in the caller, a completed bounding loop over one of `fields` dominates the call"""
    watch = set()
    for i, j, st in cb.stmts():
        r = st["r"]
        for o in r.get("o", []):
            if o["k"] in ("cp", "mv") and field_of(o["p"]) in fields:
                watch.add(st["p"][0])
                watch.add(o["p"][0])
    if not watch:
        return None
    return bounding_loop(cb, cc.bb, watch, fields, [])


def sink_tag(what):
    return {"vec![x; n]": "vec-from-elem"}.get(what, what.split(" (")[0].split(" ->")[0].replace(" ", "-"))


def param_guard(b, sink, sl, params):
    for i, j, s in b.stmts():
        r = s["r"]
        if r["k"] == "Bin" and r["op"] in ("Lt", "Le", "Gt", "Ge") and b.dominates(i, sink.bb):
            for o in r["o"]:
                l = op_local(o)
                if l is not None and (Slice(b, [l], transparent=ARITH).locals & set(params)):
                    return True
    return False


# E-bounds sites that stay unproven although the code is right: the arithmetic the engine cannot do, per site
_VFS = ("the span loop `for _ in 0..span_count { .. pos += span_size }` runs after `pos + span_count * span_size <= data.len()` was checked (and span_count <= 224): "
        "every access inside an iteration is below pos_start + (i + 1) * span_size <= len. The bound is a product of two values, outside the engine's linear facts")
_CK = ("checksum_line_end is either raw.len() or start + pos + 1 with pos < len(raw[start..]) (computed inside a map_or closure the engine does not enter), so "
       "checksum_line_end <= raw.len(); hex_end <= checksum_line_end; raw[checksum_line_end - 1] / raw[hex_end - 1] sit behind `> 0` tests and raw[hex_start..hex_end] "
       "behind `hex_start < hex_end`")
_EP = ("positions come from `windows(n).rposition(..)` / `.iter().position(..)` over the same buffer (pos + n <= len, engine has no model for iterator positions), ends are "
       "`len` or `start + pos`, and every range is behind an explicit `end > start` test - each site read and judged SAFE in findings/SUMMARY_T.md")
DISCHARGED_R3 = {
    "C02.R3|cascette_protocol::mime_parser::extract_checksum|range|input-length": _EP,
    "C02.R3|cascette_protocol::mime_parser::extract_checksum|bounds|input-length": _CK,
    "C02.R3|cascette_protocol::v1_mime::extract_checksum_epilogue|range|input-length": _EP,
    "C02.R3|cascette_client_storage::lru::lru_file::deserialize|range|input-length":
        "validate_file_size(data.len()) - a bool-returning validator whose true edge the engine does not model - accepted only len >= 28 with (len - 28) % 20 == 0, and "
        "entry_count = (len - 28) / 20: offset + 20 = 28 + 20 * i + 20 <= len for i < entry_count",
    "C02.R3|cascette_formats::patch_archive::compression::decompress_patch_data|range|input-length":
        "chunk_end = min(saturating_add(saturating_mul(size, count), offset), len) or len, and the slice sits behind `offset >= data.len() -> break`: offset < len, "
        "chunk_end >= offset (saturating_add never goes below its operand), chunk_end <= len. The value is a phi of two branches, which loses the min / saturating facts",
    "C02.R3|cascette_protocol::mime_parser::extract_checksum|bounds|loop-carried": _CK,
    "C02.R3|cascette_protocol::mime_parser::extract_checksum|range|loop-carried": _CK,
    "C02.R3|cascette_formats::tvfs::vfs_table::<VfsTable>::parse|bounds|loop-carried": _VFS,
    "C02.R3|cascette_formats::tvfs::vfs_table::<VfsTable>::parse|range|loop-carried": _VFS,
    "C02.R3|cascette_formats::tvfs::vfs_table::<VfsTable>::read_entry_at|bounds|loop-carried": _VFS,
    "C02.R3|cascette_formats::tvfs::vfs_table::<VfsTable>::read_entry_at|range|loop-carried": _VFS,
    "C02.R3|cascette_formats::patch_index::parser::parse_block2|range|loop-carried":
        "`&data[pos..]` in `for _ in 0..entry_count { .. pos += esize }` after `data.len() >= 5 + entry_count * esize` was checked: pos = 5 + i*esize "
        "<= 5 + entry_count*esize <= len. The bound is a product of two input values (non-linear), outside the engine's linear facts",
    "C02.R3|cascette_formats::patch_index::parser::parse_block8|range|loop-carried":
        "same loop as parse_block2 with a different fixed prefix: pos = prefix + i*esize <= prefix + entry_count*esize <= len (checked before the loop)",
    "C02.R3|cascette_formats::patch_index::parser::parse_patch_index|range|input-length":
        "`&data[offset..offset + block_size]` with offset = header.block_offset(i) = header_size + sum of the preceding block sizes: PatchIndexHeader::parse "
        "(which produced `header` a few lines up) rejects the file unless data.len() >= header_size + sum of ALL block sizes, and parse_patch_index itself "
        "checks header.data_size == data.len(). A sum over a Vec is outside the engine's linear facts",
}


NARROWING = re.compile(r"\bIndex<.*>>?::index$|::(get|split_at|split_first|split_last|skip|take|filter|take_while|skip_while|step_by|rposition|position|rev)$")


def premise_patch_index_total(prog):
    """premise of the parse_patch_index discharge: PatchIndexHeader::parse compares the input length with header_size + the sum of the
    sizes of ALL blocks (the summed iterator starts from the whole `blocks` vector: no sub-slice, skip, take, filter on the way)"""
    bs = [b for b in prog.bodies.values() if b.item == "parse" and (b.self_ty or "").endswith("patch_index::header::PatchIndexHeader") and not b.root]
    if not bs:
        return "PatchIndexHeader::parse not found"
    b = bs[0]
    sums = [c for c in b.calls if re.search(r"\bIterator>?::sum$", c.orig_name or c.name)]
    if not sums:
        return "PatchIndexHeader::parse no longer sums the block sizes"
    for c in sums:
        sl = Slice(b, [op_local(c.args[0])], transparent=True) if c.args and op_local(c.args[0]) is not None else None
        if sl is None:
            continue
        narrowed = [x for x in sl.calls if NARROWING.search(x.name) or NARROWING.search(x.orig_name or "")]
        from_blocks = any("BlockDescriptor" in (b.local_ty(l) or "") for l in sl.locals)
        if from_blocks and not narrowed:
            # the sum is compared with the input length
            tgt = c.dest[0]
            for i, j, st in b.stmts():
                r = st["r"]
                if r["k"] == "Bin" and r["op"] in ("Lt", "Le", "Gt", "Ge"):
                    ls = [op_local(o) for o in r["o"] if op_local(o) is not None]
                    if any(tgt in Slice(b, [l], transparent=ARITH).locals for l in ls):
                        return None
            return "the sum of the block sizes is no longer compared with the input length"
        if from_blocks and narrowed:
            return "the size check sums only part of the block list (%s)" % narrowed[0].name.split("::")[-1]
    return "no sum over the block descriptors found"


DISCHARGE_PREMISES = {
    "C02.R3|cascette_formats::patch_index::parser::parse_patch_index|range|input-length": premise_patch_index_total,
}


def premise_archive_size_validated(prog):
    """ArchiveIndex::parse propagates the error of IndexFooter::validate_file_size before it subtracts footer / TOC sizes from the file size"""
    bs = [b for b in prog.bodies.values() if b.item == "parse" and (b.self_ty or "").endswith("archive::index::ArchiveIndex") and not b.root]
    if not bs:
        return "ArchiveIndex::parse not found"
    b = bs[0]
    vs = [c for c in b.calls if re.search(r"IndexFooter::validate_file_size$", c.name)]
    if not vs:
        return "ArchiveIndex::parse no longer calls IndexFooter::validate_file_size"
    from .c05 import enum_switches_through
    for v in vs:
        for (ebb, m, other, via) in enum_switches_through(b, v.dest[0]):
            if via or (1 in m and not (b.reachable([m[1]]) & set(assigns_variant_ok(b)))):
                return None
    return "the result of validate_file_size is not propagated"


def assigns_variant_ok(b):
    from .lib import assigns_variant
    return assigns_variant(b, "Ok", adt_pat=r"result::Result")


_AS = ("IndexFooter::validate_file_size(file_size)? ran a few lines up and accepts only file_size == toc_entries * page_size + toc_entries * toc_entry_size + footer_size "
       "(an equality), so file_size - footer_size - toc_size and data_size - chunk_offset (chunk_offset <= (toc_entries - 1) * page_size) cannot go below zero. "
       "Products of header fields are outside the engine's linear facts")
DISCHARGED_R4 = {
    "C02.R4|cascette_formats::archive::index::<ArchiveIndex>::parse|overflow|Sub in u64|input": (_AS, premise_archive_size_validated),
    "C02.R4|cascette_formats::archive::index::<ArchiveIndex>::parse|overflow|Sub in usize|input": (_AS, premise_archive_size_validated),
}


def premise_espec_cursor_on_boundary(prog):
    """every write to espec::parser::Parser.pos adds the UTF-8 length of a char, or adds 1 on the true edge of a `char::is_ascii_*` test (in a body
    that reads its chars with peek()): the cursor starts at 0 and moves only over whole characters"""
    bs = [b for b in prog.bodies.values() if re.search(r"espec::parser::Parser\b", b.self_ty or "")]
    if not bs:
        return "espec::parser::Parser has no bodies"
    from .lib import field_writes, bool_switches
    seen = 0
    for b in bs:
        for (i, j, st_) in field_writes(b, "pos"):
            seen += 1
            r = st_["r"]
            src = r["o"][0] if r["k"] == "Use" else None
            if src is None or src["k"] not in ("cp", "mv") or len(src["p"]) != 2:
                return "%s writes Parser.pos with something other than `pos + k` at line %s" % (b.id, st_.get("l"))
            dfn = [s2 for (_i, _j, s2) in b.stmts() if s2["p"] == [src["p"][0]] and s2["r"]["k"] == "Bin" and s2["r"]["op"] == "AddWithOverflow"]
            if len(dfn) != 1:
                return "%s writes Parser.pos with something other than `pos + k` at line %s" % (b.id, st_.get("l"))
            o0, o1 = dfn[0]["r"]["o"]
            if not (o0["k"] in ("cp", "mv") and place_fields(o0["p"]) and place_fields(o0["p"])[-1] == "pos"):
                return "%s: the new Parser.pos at line %s is not the old one plus a step" % (b.id, st_.get("l"))
            if o1["k"] in ("cp", "mv") and len(o1["p"]) == 1:
                calls = [c for c in b.calls if c.dest and c.dest[0] == o1["p"][0] and re.search(r"<impl char>::len_utf8$", c.name)]
                if calls:
                    continue
                return "%s advances Parser.pos by a step that is not `ch.len_utf8()` at line %s" % (b.id, st_.get("l"))
            if o1["k"] == "c" and str(o1.get("v")) == "1":
                asc = [c for c in b.calls if re.search(r"<impl char>::is_ascii(_\w+)?$", c.name) and c.dest]
                if not any(re.search(r"Parser(::<.*>)?::peek$", c.name) for c in b.calls):
                    return "%s advances Parser.pos by 1 without reading the char with peek()" % b.id
                if any(b.dominates(tt, i) for c in asc for (_sb, tt, _ft) in bool_switches(b, c.dest[0])):
                    continue
                return "%s advances Parser.pos by one byte at line %s without an is_ascii_* test of the char there" % (b.id, st_.get("l"))
            return "%s advances Parser.pos by an unrecognised step at line %s" % (b.id, st_.get("l"))
    if seen < 4:
        return "only %d write(s) to Parser.pos found (4 confirmed by hand)" % seen
    return None


_ES = ("the cursor `pos` of espec::parser::Parser starts at 0 and every write to it (checked on each run) is `pos += ch.len_utf8()` or `pos += 1` behind "
       "an `is_ascii_*` test of the char that peek() read at `pos`: it only ever rests on character boundaries, and `start` is a copy of it")
DISCHARGED_R7 = {
    "C02.R7|cascette_formats::espec::parser::<Parser>::peek|charboundary": (_ES, premise_espec_cursor_on_boundary),
    "C02.R7|cascette_formats::espec::parser::<Parser>::parse_number|charboundary": (_ES, premise_espec_cursor_on_boundary),
    "C02.R7|cascette_formats::espec::parser::<Parser>::parse_identifier|charboundary": (_ES, premise_espec_cursor_on_boundary),
    "C02.R7|cascette_formats::espec::parser::<Parser>::parse_hex_until|charboundary": (_ES, premise_espec_cursor_on_boundary),
}


def strict_input(t, br):
    if t in ("input", "position"):
        # (a position returned by find / rfind is a function of the haystack's content: two positions need not be ordered)
        return True
    if t.startswith("field:"):
        adt = t[6:].rsplit(".", 1)[0]
        return adt.startswith(("cascette_", "verif_selftest")) and (adt in br or re.search(r"Header|Footer|Descriptor|Info$|Entry$|Block$", adt.split("::")[-1]) is not None)
    return False


def r3_bounds(ctx, ents, cl, krate_prefix="cascette_", discharged=DISCHARGED_R3):
    from . import bounds
    rule = "C02.R3"
    ctx.rule(rule, "every slice / array / Vec index, range index, split_at and copy_from_slice in the parser closure whose index derives from input is proven "
                   "in bounds by the E-bounds abstract interpretation (or discharged by key with the missing arithmetic)")
    prog = ctx.prog
    br = binread_adts(prog)
    res, req = bounds.analyse_closure(prog, cl, krate_prefix=krate_prefix)
    cnt = collections.Counter()
    ocnt = collections.Counter()
    dcnt = collections.Counter()
    ctx.rule("C02.R6", "every division / remainder whose divisor derives from parser input has a divisor that E-bounds proves non-zero")
    nd = collections.Counter()
    bcnt = collections.Counter()
    ctx.rule("C02.R7", "every range index / split_at on a str in the parser closure uses offsets that are character boundaries by construction: 0, the length, "
                       "the start of a `find` match, or its end when the pattern's byte length is exact")
    ctx.rule("C02.R4", "no addition / multiplication / subtraction in u8 / u16 / u32 on input-derived operands that can leave the type's range, and no u64 / usize "
                       "addition / multiplication with a 64-bit input number (parsed from text or read as a u64) as operand (E-bounds value ranges)")
    for bid in sorted(res):
        a = res[bid]
        for sk in a.sinks:
            if sk.kind == "charboundary":
                # R7: `&s[a..b]` / `s.split_at(m)` on a str panics when an offset falls inside a multi-byte character - whatever the length says
                if sk.proven:
                    bcnt["proven"] += 1
                    ctx.ok("C02.R7", [bid, "charboundary", sk.bb], "offsets are character boundaries", sk.loc, nontrivial=True)
                    continue
                ctx.saw(a.b)
                k7 = ctx._stable("|".join(["C02.R7", bid, "charboundary"]))
                if k7 in DISCHARGED_R7:
                    why_not = DISCHARGED_R7[k7][1](prog) if DISCHARGED_R7[k7][1] else None
                    if why_not is None:
                        bcnt["discharged by key"] += 1
                        ctx.ok("C02.R7", [bid, "charboundary", "discharged", sk.bb], "discharged by reading: " + DISCHARGED_R7[k7][0], sk.loc,
                               sample={"site": sk.loc, "reason": DISCHARGED_R7[k7][0]})
                        continue
                    ctx.bad("C02.R7", [bid, "charboundary", "premise"],
                            "%s: the str slice at %s was discharged because %s - but that premise no longer holds: %s" % (bid, sk.loc, DISCHARGED_R7[k7][0][:140], why_not), sk.loc)
                    bcnt["violations"] += 1
                    continue
                bcnt["violations"] += 1
                ctx.bad("C02.R7", [bid, "charboundary"],
                        "%s slices a str (%s) at %s with a byte offset that is not known to be a character boundary (not 0, not the length, not where a "
                        "`find` match starts or ends): input with a multi-byte character across that offset panics ('byte index N is not a char boundary') "
                        "even when the length test passes" % (bid, sk.what, sk.loc), sk.loc, {"offsets": [repr(i) for i in sk.index_lins]})
                continue
            if sk.kind == "divzero":
                # R6: a divisor that derives from input is proven non-zero (a guard, a validator postcondition, `+ constant`); `/` and `%` by zero
                # panic in every build profile
                if getattr(sk, "delegated", None):
                    dcnt["delegated to callers"] += 1
                    continue
                strict_d = sorted(t for t in sk.taint if strict_input(t, br))
                if sk.proven:
                    dcnt["proven non-zero"] += 1
                    ctx.ok("C02.R6", [bid, "divisor", sk.bb], "divisor proven non-zero", sk.loc, nontrivial=bool(strict_d))
                    continue
                if not strict_d:
                    dcnt["not decided"] += 1
                    continue
                ctx.saw(a.b)
                tagd = strict_d[0] if strict_d[0] in ("input", "position") else "field " + strict_d[0][6:].split("::")[-1]
                dcnt["violations"] += 1
                ctx.bad("C02.R6", [bid, "divisor", tagd],
                        "%s divides by a value read from the input (%s) at %s that no guard shows to be non-zero: an input with that field 0 panics with "
                        "'attempt to divide by zero' in every build profile" % (bid, ", ".join(strict_d)[:140], sk.loc), sk.loc, {"goal": [repr(g) for g in sk.goals]})
                continue
            if sk.kind == "overflow":
                # R4: arithmetic in a NARROW unsigned type (u8/u16/u32) on input-derived operands: in a release build it wraps silently and every
                # bound proven for the mathematical value is void; in a debug build it panics. Wide (usize/u64) additions of positions and all
                # subtractions are not decided (their count is reported).
                m_ = re.match(r"^(Add|Mul|Sub) in (u8|u16|u32)$", sk.what) or re.match(r"^(Sub) in (u64|usize|u128)$", sk.what)   # underflow does not depend on the width
                strict_o = sorted(t for t in sk.taint if strict_input(t, br))
                if not m_ and re.match(r"^(Add|Mul) in (u64|usize|u128)$", sk.what):
                    # wide arithmetic wraps only with operands that are themselves 64-bit input numbers (a u64 parsed from text, a u64 field):
                    # positions, lengths and values widened from <= 32 bits cannot get there
                    wide_in = []
                    for g in sk.goals:
                        for at_, v_ in (g.t.items() if g is not None else ()):
                            kd = a.atom_src.get(at_, ("", ""))[0]
                            direct = at_[0] in ("fld", "ld") or kd == "input"
                            if v_ > 0 and direct and kd != "position" and (kd == "input" or strict_input(kd, br)) and a.atom_ty.get(at_, "") in ("u64", "usize", "u128"):
                                wide_in.append(kd)
                    if wide_in:
                        m_ = re.match(r"^(Add|Mul) in (u64|usize|u128)$", sk.what)
                        strict_o = sorted(set(wide_in))
                if not m_ or not strict_o:
                    ocnt["proven" if sk.proven else "not decided"] += 1
                    continue
                if sk.proven or getattr(sk, "delegated", None):
                    ocnt["narrow, input-derived, proven not to wrap"] += 1
                    ctx.ok("C02.R4", [bid, "overflow", sk.what, sk.bb], "cannot exceed the type's range", sk.loc, nontrivial=True)
                    continue
                ctx.saw(a.b)
                tag = strict_o[0] if strict_o[0] in ("input", "position") else "field " + strict_o[0][6:].split("::")[-1]
                k4 = ctx._stable("|".join(["C02.R4", bid, "overflow", sk.what, tag]))
                if k4 in DISCHARGED_R4:
                    why_not = DISCHARGED_R4[k4][1](prog) if DISCHARGED_R4[k4][1] else None
                    if why_not is None:
                        ocnt["discharged by key"] += 1
                        ctx.ok("C02.R4", [bid, "overflow", sk.what, tag, "discharged", sk.bb], "discharged by reading: " + DISCHARGED_R4[k4][0], sk.loc,
                               sample={"site": sk.loc, "reason": DISCHARGED_R4[k4][0]})
                        continue
                    ctx.bad("C02.R4", [bid, "overflow", sk.what, tag, "premise"],
                            "%s: %s at %s was discharged because %s - but that premise no longer holds: %s" % (bid, sk.what, sk.loc, DISCHARGED_R4[k4][0][:140], why_not), sk.loc)
                    ocnt["violations"] += 1
                    continue
                ocnt["violations"] += 1
                ctx.bad("C02.R4", [bid, "overflow", sk.what, tag],
                        "%s: %s at %s on values read from the input (%s) can exceed the type's range: a release build wraps silently (a size of 256 becomes 0 - "
                        "the loops and slices sized by it then hang or index out of range), a debug build panics" % (bid, sk.what, sk.loc, ", ".join(strict_o)[:160]),
                        sk.loc, {"goal": [repr(g) for g in sk.goals]})
                continue
            if getattr(sk, "delegated", None):
                cnt["delegated to callers"] += 1
                continue
            if sk.proven:
                cnt["proven"] += 1
                if sk.kind != "precondition" and cnt["proven"] % 40 == 1:
                    ctx.ok(rule, [bid, sk.kind, "proven", sk.bb], "in bounds: " + "; ".join(d for d in sk.detail if d)[:160], sk.loc,
                           sample={"in": bid, "site": sk.loc, "what": sk.what, "goals": [repr(g) for g in sk.goals], "proof": sk.detail})
                else:
                    ctx.ok(rule, [bid, sk.kind, "proven", sk.bb, len(sk.goals)], "in bounds", sk.loc, nontrivial=True)
                continue
            # why this site depends on the input; the tag used in keys is picked by a FIXED priority so that it does not change when the engine
            # learns to see one more reason: loop-carried > input-length > position > input > field > param
            reasons = {}
            if any(at_[0] == "phi" for g in sk.goals if g is not None for at_ in g.atoms()) and \
                    any(kv[0] == "input" or strict_input(kv[0], br) for kv in a.atom_src.values()):
                # control dependence: how often the loop runs and by how much the index advances is decided by the input even when no input
                # VALUE flows into the index (`for _ in 0..page_count { .. offset += PAGE }`)
                reasons["loop-carried"] = "loop"
            for g in sk.goals:
                for at_ in (g.atoms() if g is not None else ()):
                    if at_[0] == "len" and at_[1][0] == "arg" and re.search(r"\[u8\]|str$", a.b.local_ty(at_[1][1]) or ""):
                        # the LENGTH of the input is input: `data[0x150]` without a length test fails for a short enough input
                        reasons["input-length"] = "input-length"
            for t_ in sorted(sk.taint):
                if t_ == "position":
                    reasons["position"] = t_
                elif t_ == "input":
                    reasons["input"] = t_
                elif strict_input(t_, br):
                    reasons.setdefault("field", t_)
            if not reasons and ("param" in sk.taint or any(at_[0] == "fld" and at_[1][0] == "arg" for g in sk.goals if g is not None for at_ in g.atoms())):
                # a private helper's parameter: input-derived when an in-closure caller passes an input-derived value for it
                for g in sk.goals:
                    for at_ in (g.atoms() if g is not None else ()):
                        if at_[0] == "fld" and at_[1][0] == "arg":
                            at_ = at_[1]
                        if at_[0] == "arg":
                            for t_ in sorted(getattr(a, "param_in", {}).get(at_[1], ())):
                                if strict_input(t_, br):
                                    reasons.setdefault("param", "%s (passed by a caller for `%s`)" % (t_, a.b.local_name(at_[1])))
            strict = [reasons[k_] for k_ in ("loop-carried", "input-length", "position", "input", "field", "param") if k_ in reasons]
            if not strict:
                cnt["not decided"] += 1
                nd[bid] += 1
                continue
            ctx.saw(a.b)
            t0 = strict[0].split(" (passed")[0]
            tag = t0 if t0 in ("input", "position", "input-length") else "loop-carried" if t0 == "loop" else "field " + t0[6:].split("::")[-1]
            if " (passed" in strict[0]:
                tag = "param <- " + tag
            if sk.kind == "precondition":
                keyl = [bid, "precondition", sk.what.split(":")[0].replace("precondition of ", ""), sk.what.split(": ", 1)[-1].replace(" <= 0", "")]
            else:
                keyl = [bid, sk.kind, tag]
            k0 = ctx._stable("|".join([rule] + [str(x) for x in keyl]))
            if k0 in discharged:
                # a discharge that rests on what ANOTHER function checks re-checks that premise on every run
                why_not = DISCHARGE_PREMISES[k0](prog) if k0 in DISCHARGE_PREMISES else None
                if why_not is None:
                    cnt["discharged by key"] += 1
                    ctx.ok(rule, keyl + ["discharged", sk.bb], "discharged by reading: " + discharged[k0], sk.loc, sample={"site": sk.loc, "reason": discharged[k0]})
                    continue
                ctx.bad(rule, keyl + ["premise"],
                        "%s: %s at %s was discharged because %s - but that premise no longer holds: %s" % (bid, sk.what, sk.loc, discharged[k0][:160], why_not), sk.loc)
                cnt["violations"] += 1
                continue
            cnt["violations"] += 1
            goals = [repr(g) for g, d in zip(sk.goals, sk.detail) if d is None]
            ctx.bad(rule, keyl,
                    "%s: %s at %s is not proven in bounds and its index derives from parser input (%s): no guard on any path establishes %s - input that "
                    "makes it false panics the caller instead of returning an error" %
                    (bid, sk.what, sk.loc, ", ".join(strict)[:120], " and ".join("%s <= 0" % g for g in goals)[:200] or "the bound (length unknown to the engine)"),
                    sk.loc, {"goals": goals, "taint": sorted(sk.taint)})
    total = sum(cnt.values())
    ctx.floor(rule, total, 400, "index / range / split / copy sites in the parser closure")
    ctx.floor(rule, cnt["proven"], 380, "sites proven in bounds")
    ctx.ok(rule, ["summary"], "sites scanned", None, sample={"sites": dict(cnt), "helper_preconditions": {ctx._stable(k): [repr(x) for x in v] for k, v in sorted(req.items())},
                                                           "not_decided_by_function": {ctx._stable(k): v for k, v in nd.most_common(12)}})
    ctx.info("C02.R3 E-bounds: %s; %d helper precondition set(s)" % (dict(cnt), len(req)))
    # R4 (sums): `iter.map(|e| e.field).sum()` adds with the build's overflow checks - a sum in the width of its items wraps (or panics) with two items
    scnt = collections.Counter()
    WIDTH = {"u8": 8, "u16": 16, "u32": 32, "u64": 64, "usize": 64, "u128": 128}
    for bid in sorted(res):
        b = prog.bodies[bid]
        for c in b.calls:
            if not re.search(r"\bIterator>?::(sum|product)$", c.name):
                continue
            m = re.search(r"\{closure@[^:]+:(\d+):", (c.t.get("at") or [""])[0])
            kids = [x for x in prog.bodies.values() if x.parent == b.id and m and x.lines and x.lines[0] == int(m.group(1))]
            if not kids:
                scnt["not decided (no mapping closure)"] += 1
                continue
            worst = None
            for k in kids:
                a = res.get(k.id)
                T = k.local_ty(0) or ""
                if a is None or T not in WIDTH:
                    continue
                for i in k.return_blocks():
                    so = getattr(a, "out_state", {}).get(i)
                    v = so.env.get(0) if so else None
                    for at_ in (v.atoms() if v is not None else ()):
                        kd = a.atom_src.get(at_, ("", ""))[0]
                        if at_[0] in ("fld", "ld") and strict_input(kd, br) and WIDTH.get(a.atom_ty.get(at_, ""), 0) >= WIDTH[T]:
                            worst = (T, kd)
            if worst is None:
                scnt["items narrower than the sum, or lengths"] += 1
                ctx.ok("C02.R4", [bid, "sum", c.bb], "sum of items that are narrower than the accumulator or are lengths of owned data", c.loc())
                continue
            ctx.saw(b)
            scnt["violations"] += 1
            ctx.bad("C02.R4", [bid, "sum", worst[0], "field " + worst[1][6:].split("::")[-1]],
                    "%s sums %s items that are %s-wide numbers from the input (%s) at %s with Iterator::sum: two entries near the type's maximum overflow - a panic "
                    "with overflow checks on (debug / test profile), a wrapped total otherwise; use checked_add / try_fold" % (bid, worst[0], worst[0], worst[1], c.loc()), c.loc())
    ctx.floor("C02.R4", sum(scnt.values()), 7, "Iterator::sum / product sites in the parser closure")
    ctx.info("C02.R4 sums: %s" % dict(scnt))
    ctx.ok("C02.R4", ["summary"], "overflow asserts scanned", None, sample={"overflow_asserts": dict(ocnt), "sums": dict(scnt)})
    ctx.info("C02.R4 overflow asserts: %s" % dict(ocnt))
    ctx.ok("C02.R6", ["summary"], "divisions scanned", None, sample={"divisions": dict(dcnt)})
    ctx.floor("C02.R6", sum(dcnt.values()), 15, "division / remainder sites in the parser closure")
    ctx.info("C02.R6 divisions: %s" % dict(dcnt))
    ctx.info("C02.R7 str offsets: %s" % dict(bcnt))
    ctx.floor("C02.R7", sum(bcnt.values()), 8, "str range-index / split_at sites in the parser closure")


def recursive_cycles(prog, cl, prefixes=("cascette_",)):
    """[(cycle members, has a compared depth counter)] for the recursive call-graph cycles among workspace functions in `cl`"""
    nodes = [b for b in cl if prog.bodies[b].krate.startswith(prefixes)]
    root_of = {b: (prog.bodies[b].root or b) for b in nodes}
    succ = collections.defaultdict(set)
    for b in nodes:
        for c in prog.bodies[b].calls:
            if c.id in prog.bodies and c.id in cl and prog.bodies[c.id].krate.startswith(prefixes):
                tgt = root_of.get(c.id, c.id)
                if tgt == root_of[b] and c.id != tgt:
                    continue      # a function calling its own closure (tracing macros) is not recursion
                succ[root_of[b]].add(tgt)
    # Tarjan SCC
    index = {}
    low = {}
    stack = []
    on = set()
    sccs = []
    sys.setrecursionlimit(10000)

    def strong(v):
        index[v] = low[v] = len(index)
        stack.append(v)
        on.add(v)
        for w in succ.get(v, ()):
            if w not in index:
                strong(w)
                low[v] = min(low[v], low[w])
            elif w in on:
                low[v] = min(low[v], index[w])
        if low[v] == index[v]:
            comp = []
            while True:
                w = stack.pop()
                on.discard(w)
                comp.append(w)
                if w == v:
                    break
            if len(comp) > 1 or v in succ.get(v, ()):
                sccs.append(sorted(comp))
    for v in sorted(set(root_of.values())):
        if v not in index:
            strong(v)
    out = []
    for comp in sorted(sccs):
        members = set(comp)
        bounded = False
        for m in comp:
            fam = [x for x in prog.bodies.values() if (x.root or x.id) == m]
            for fb in fam:
                for c in fb.calls:
                    if root_of.get(c.id, c.id) not in members:
                        continue
                    # an integer argument of the recursive call that is `param + const` (or a field incremented before), and a comparison on that param
                    for a_ in c.args:
                        l = op_local(a_)
                        if l is None or not re.match(r"^(u8|u16|u32|u64|usize)$", fb.local_ty(l) or ""):
                            continue
                        sl = Slice(fb, [l], transparent=ARITH)
                        incr = any(o[0] in ("Add", "AddWithOverflow") for o in sl.ops)
                        params = [p_ for p_ in sl.locals if 1 <= p_ <= fb.argc]
                        if not (incr and params):
                            continue
                        for i, j, st in fb.stmts():
                            r = st["r"]
                            if r["k"] == "Bin" and r["op"] in ("Lt", "Le", "Gt", "Ge") and fb.dominates(i, c.bb):
                                sides = [(op_local(o) is not None and bool(Slice(fb, [op_local(o)], transparent=ARITH).locals & set(params))) for o in r["o"]]
                                if any(sides) and not all(sides):
                                    other = r["o"][1] if sides[0] else r["o"][0]
                                    # the limit is a constant or a value that does not depend on the function's other parameters (a configured
                                    # maximum), not another offset / length of the input
                                    ol = op_local(other)
                                    lim_const = op_const(other) is not None
                                    lim_indep = ol is not None and not any(1 <= p_ <= fb.argc for p_ in Slice(fb, [ol], transparent=ARITH).locals) \
                                        and not any(LEN_SRC.search(x.name) for x in Slice(fb, [ol], transparent=ARITH).calls)
                                    if lim_const or lim_indep:
                                        bounded = True
        if not bounded:
            # ... or a counter kept in the parser object: a field that some member of the cycle increments and compares with a limit
            inc_fields, cmp_fields = set(), set()
            for m in comp:
                for fb in [x for x in prog.bodies.values() if (x.root or x.id) == m]:
                    for i, j, st in fb.stmts():
                        r = st["r"]
                        if len(st["p"]) > 1 and r["k"] == "Use" and op_local(r["o"][0]) is not None:
                            f_ = tuple(place_fields(st["p"]))
                            sl = Slice(fb, [op_local(r["o"][0])], transparent=ARITH)
                            if f_ and any(o[0] in ("Add", "AddWithOverflow") for o in sl.ops) and any(tuple(x) == f_ for x in sl.fields):
                                inc_fields.add(f_)
                        if r["k"] == "Bin" and r["op"] in ("Lt", "Le", "Gt", "Ge"):
                            for a_, o_ in ((r["o"][0], r["o"][1]), (r["o"][1], r["o"][0])):
                                la = op_local(a_)
                                if la is None:
                                    continue
                                sa = Slice(fb, [la], transparent=ARITH)
                                lim_ok = op_const(o_) is not None or (op_local(o_) is not None and not Slice(fb, [op_local(o_)], transparent=ARITH).fields
                                                                    and not any(LEN_SRC.search(x.name) for x in Slice(fb, [op_local(o_)], transparent=ARITH).calls))
                                if lim_ok:
                                    cmp_fields |= {tuple(x) for x in sa.fields}
            if inc_fields & cmp_fields:
                bounded = True
        out.append((comp, bounded))
    return out


def r5_bounded_recursion(ctx, ents, cl):
    """nesting in the input must not become nesting on the stack without a limit: every recursive cycle in the parser closure carries a depth
    counter - an integer parameter that the recursive call passes on incremented and that is compared against a limit before the call, or a
    field of the parser object that is incremented and compared - or is discharged by key. A stack overflow is not an error return: the process
    is killed (SIGABRT), catch_unwind does not help."""
    rule = "C02.R5"
    ctx.rule(rule, "every recursive cycle among workspace functions in the parser closure has a depth counter that is compared with a limit")
    prog = ctx.prog
    cycles = recursive_cycles(prog, cl)
    for comp, bounded in cycles:
        key = [ctx._stable(comp[0]), "recursion", len(comp)]
        k0 = ctx._stable("|".join([rule] + [str(x) for x in key]))
        ctx.saw(prog.bodies[comp[0]])
        if bounded:
            ctx.ok(rule, key, "recursion carries a compared depth counter", prog.bodies[comp[0]].loc(), sample={"cycle": [ctx._stable(x) for x in comp]})
        elif k0 in DISCHARGED_R5:
            ctx.ok(rule, key + ["discharged"], "discharged by reading: " + DISCHARGED_R5[k0], prog.bodies[comp[0]].loc(), sample={"cycle": [ctx._stable(x) for x in comp]})
        else:
            ctx.bad(rule, key,
                    "recursive cycle %s in the parser closure has no depth counter that is compared with a limit: input nested deeply enough overflows the "
                    "stack, which kills the process (SIGABRT) instead of returning an error" % " -> ".join(ctx._stable(x).split("::")[-1] for x in comp + comp[:1]),
                    prog.bodies[comp[0]].loc(), {"cycle": [ctx._stable(x) for x in comp]})
    ctx.floor(rule, len(cycles), 2, "recursive cycles in the parser closure")
    ctx.info("C02.R5: %d recursive cycle(s) in the parser closure" % len(cycles))


DISCHARGED_R5 = {}


def run(ctx):
    ents, cl = entries_and_closure(ctx)
    r5_bounded_recursion(ctx, ents, cl)
    r3_bounds(ctx, ents, cl)
    r1_no_panic(ctx, ents, cl)
    r2_alloc(ctx, ents, cl)


from .selftest import for_families as _ff  # noqa: E402
selftest = _ff(['taint', 'panic', 'bounds', 'recursion'])
