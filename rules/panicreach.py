"""E-reach: explicit panic APIs reachable from a set of entry bodies (shared by C02.R1 and C15.R1)."""
import re
from .facts import op_local, Slice, op_const

PANIC_CALL = re.compile(
    r"^core::option::Option::<T>::(unwrap|expect)$|^core::result::Result::<T, E>::(unwrap|expect|unwrap_err|expect_err)$|"
    r"^core::panicking::(panic|panic_fmt|panic_display|panic_explicit|panic_str_2015|panic_nounwind|unreachable_display|assert_failed|assert_failed_inner|panic_const::\w+)$|"
    r"^std::rt::(begin_panic|panic_fmt)$|^core::option::(unwrap_failed|expect_failed)$|^core::result::unwrap_failed$|^std::process::(abort|exit)$")


def panic_sites(body):
    out = []
    live = body.live_blocks()
    for c in body.calls:
        if c.bb in live and PANIC_CALL.search(c.name):
            out.append(c)
    return out


def kind_of(c):
    n = c.name
    if "::unwrap" in n and "failed" not in n:
        return n.split("::")[-3].split("<")[0] + "::" + n.split("::")[-1]
    if "::expect" in n and "failed" not in n:
        return n.split("::")[-3].split("<")[0] + "::" + n.split("::")[-1]
    return n.split("::")[-1]


def infallible_try_into(body, c):
    """`x[a..a+N].try_into().unwrap()/expect()` into [T; N] where the range has constant width N: cannot fail"""
    if not re.search(r"Result::<T, E>::(unwrap|expect)$", c.name) or not c.args:
        return False
    l = op_local(c.args[0])
    if l is None:
        return False
    sl = Slice(body, [l], transparent=re.compile(r"\bTryInto<.*>>?::try_into$|\bTryFrom<.*>>?::try_from$|\bIndex<.*>>?::index$|\bDeref>?::deref$"))
    if not sl.has_call(r"\bTryInto<.*>>?::try_into$|\bTryFrom<.*>>?::try_from$"):
        return False
    ty = body.local_ty(l)
    m = re.search(r"\[u8; (\d+)\]", ty)
    if not m:
        return False
    n = int(m.group(1))
    for (bb, idx, st) in sl.stmts:
        r = st["r"]
        if r["k"] == "Agg" and r.get("variant") == "Range" and len(r["o"]) == 2:
            lo, hi = op_const(r["o"][0]), op_const(r["o"][1])
            if lo is not None and hi is not None and hi - lo == n:
                return True
            # a..a+N with the same base
            if op_local(r["o"][1]) is not None:
                s2 = Slice(body, [op_local(r["o"][1])], transparent=None)
                adds = [o for o in s2.ops if o[0] in ("Add", "AddWithOverflow") and any(op_const(x) == n for x in o[1])]
                if adds:
                    return True
    return False


def reach(prog, entries):
    """closure {body id: (parent, call)} from entry ids"""
    return prog.closure_of(entries)
