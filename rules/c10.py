"""C10 - a cache is a bounded map: limits that trigger eviction also size it, expiry on every serving path,
counters paired with map mutations (structural clauses)."""
import re
from .facts import op_local, Slice, place_fields, op_const
from .lib import (bool_switches, enum_switches, assigns_variant, must_pass, return_holders, result_local)
from .cachebooks import (map_ops, counter_ops, option_edges, recv_fields, on_field, upvar_origin, RECV_TRANSPARENT)
from .c12 import ok_some_blocks

CRATES = ["cascette_cache"]

EXPLANATION = (
    "Static rules over the MIR of cascette-cache (memory_cache.rs, disk_cache.rs). R1 limit coverage: the set of config limit fields "
    "in the backward slice of the eviction TRIGGER must be contained in the slice of the eviction SIZE (count handed to the evictor); a "
    "limit that triggers but does not size can never be enforced; the size computation must not be clamped from below by a positive "
    "constant. R2: every path that serves cached bytes passes an expiry test of the entry whose expired edge does not serve; an expired "
    "entry that is dropped from the disk index also has its file deleted (else the not-indexed fallback serves it again). R3: every "
    "insert/remove/clear on the backing map is paired, on the same path and conditional on the mutation's own result, with the matching "
    "update of BOTH counters, and the counters updated are the cache's own fields. Numeric bounds after each operation are not decided.")

ASSUMPTIONS = ["'latest value or nothing' over histories and the numeric limits themselves are value/history-level and not decided"]

CACHES = {
    "memory": {
        "type": "MemoryCache", "file": r"memory_cache\.rs$", "map": "storage",
        "count": "entry_count", "usage": "memory_usage",
        "trigger": ("MemoryCache", "needs_eviction"), "sizer": ("MemoryCache", "perform_eviction"),
        "evictor_pat": r"MemoryCache::<K>::evict_\w+$",
    },
    "disk": {
        "type": "DiskCache", "file": r"disk_cache\.rs$", "map": "index",
        "count": "entry_count", "usage": "disk_usage",
    },
}


def cfg_fields(sl):
    """config limit fields (max_*) read in a slice"""
    out = set()
    for f in (sl.fields if sl is not None else ()):
        for x in f:
            m = re.search(r"(?:^|__|:)(max_\w+)$", x)
            if m:
                out.add(m.group(1))
    return out


def closure_fields(ctx, b, sl):
    """limit fields read by closures passed to calls in the slice (e.g. is_some_and(|max| ..)) - their captured/arg data come
    from the receiver, which the transparent slice already covers; add fields read inside nested bodies of b"""
    out = set()
    for ch in ctx.prog.children.get(b.root or b.id, []):
        cb = ctx.prog.bodies[ch]
        for i, j, s in cb.stmts():
            for o in s["r"].get("o", []):
                if o["k"] in ("cp", "mv"):
                    for x in place_fields(o["p"]):
                        m = re.search(r"(?:^|__|:)(max_\w+)$", x)
                        if m:
                            out.add(m.group(1))
    return out


def r1_limits(ctx):
    rule = "C10.R1"
    ctx.rule(rule, "every configured limit that triggers eviction also sizes it; the eviction target is not clamped upward")
    prog = ctx.prog
    # ---- memory cache -------------------------------------------------------------------------------------
    c = CACHES["memory"]
    # by role, not by name (a rename of the private helpers must not matter): the TRIGGER is the bool method of MemoryCache whose verdict reads
    # config limits; EVICTORS are the methods with an integer count parameter that remove from the backing map; the SIZER is the method that
    # consults the trigger and calls evictors
    meths = [m for m in prog.find(self_ty=r"\b%s\b" % c["type"], closure=False) if re.search(c["file"], m.file or "") and not m.expn]
    tb = [m for m in meths if (m.local_ty(0) or "") == "bool" and cfg_fields(Slice(m, list(return_holders(m)), transparent=True))]
    evictors = set()
    for m in meths:
        has_count = any(re.match(r"^(usize|u32|u64)$", m.local_ty(k) or "") for k in range(2, m.argc + 1))
        fam_ = [m] + [prog.bodies[ch] for ch in prog.children.get(m.id, []) if ch in prog.bodies]
        if has_count and any(op.op in ("remove", "remove_if") for fb in fam_ for op in map_ops(fb, c["map"])):
            evictors.add(m.id)
    sb = [m for m in meths if any(x.id in evictors for x in m.calls) and any(x.id in {t_.id for t_ in tb} for x in m.calls) and m.id not in evictors]
    if ctx.anchor(rule, tb, "the eviction trigger of MemoryCache (a bool method whose verdict reads config limits)") and \
            ctx.anchor(rule, sb, "the eviction sizer of MemoryCache (consults the trigger, calls the evictors)"):
        t, s = tb[0], sb[0]
        ctx.saw(t)
        ctx.saw(s)
        tsl = Slice(t, list(return_holders(t)), transparent=True)
        trig = cfg_fields(tsl) | closure_fields(ctx, t, tsl)
        ev = [x for x in s.calls if x.id in evictors and x.bb in s.live_blocks()]
        sized = set()
        clamp = []
        n_count_args = 0
        for e in ev:
            for a in e.args[1:]:
                l = op_local(a)
                if l is None:
                    continue
                n_count_args += 1
                sl = Slice(s, [l], transparent=True)
                sized |= cfg_fields(sl)
                clamp += [x for x in sl.calls if re.search(r"\bOrd::(max|clamp)$|\bcmp::max$|\bnum::<impl \w+>::(max|clamp)$", x.name) or re.search(r"\bOrd>?::(max|clamp)$", x.orig_name)]
        if ctx.anchor(rule, trig, "limit fields in the eviction trigger") and ctx.anchor(rule, n_count_args, "count argument of the evictors"):
            for f in sorted(trig):
                ctx.check(f in sized, rule, ["memory", f], "limit sizes the eviction",
                          "MemoryCache: `%s` triggers eviction (needs_eviction) but the number of entries to evict is computed without it "
                          "(perform_eviction sizes by %s only): once the byte limit is exceeded while the entry limit is not, nothing is "
                          "evicted and the cache grows past `%s` without bound" % (f, sorted(sized), f), s.loc(),
                          sample={"trigger_fields": sorted(trig), "sizing_fields": sorted(sized)})
            ctx.check(not clamp, rule, ["memory", "target-clamp"], "eviction target is not raised by a lower clamp",
                      "MemoryCache::perform_eviction clamps the eviction target from below (%s): with max_entries at or below the clamp the "
                      "target equals the limit, nothing is evicted before an insert and the cache holds more than max_entries" %
                      [x.name.split("::")[-1] for x in clamp], s.loc())
    # ---- disk cache cleanup task ---------------------------------------------------------------------------
    d = CACHES["disk"]
    cl = [b for b in prog.find(self_ty=r"\b%s\b" % d["type"], item="start_cleanup_task", closure=True) if b.coroutine]
    if ctx.anchor(rule, cl, "DiskCache cleanup task body"):
        b = cl[0]
        ctx.saw(b)
        trig = set()
        for i, blk in enumerate(b.blocks):
            t = blk["t"]
            if t["k"] == "Switch" and op_local(t["d"]) is not None and i in b.live_blocks():
                sl = Slice(b, [op_local(t["d"])], transparent=True)
                fs = cfg_fields(sl)
                if fs:
                    trig |= fs
        trig |= {x for x in closure_fields(ctx, b, None) if x.startswith("max_")}
        takes = b.calls_matching(r"\bIterator>?::take$")
        sized = set()
        for tk in takes:
            for a in tk.args[1:]:
                l = op_local(a)
                if l is not None:
                    sized |= cfg_fields(Slice(b, [l], transparent=True))
        if ctx.anchor(rule, trig, "limit fields tested by the disk cleanup task") and ctx.anchor(rule, takes, "`take(excess_count)` in the disk cleanup task"):
            for f in sorted(trig):
                ctx.check(f in sized, rule, ["disk", f], "limit sizes the eviction",
                          "DiskCache cleanup: `%s` is tested to start eviction but the number of entries to evict is computed from %s only "
                          "(0 when only the byte limit is exceeded): the limit can never be enforced" % (f, sorted(sized)), takes[0].loc(),
                          sample={"trigger_fields": sorted(trig), "sizing_fields": sorted(sized)})


def serving_blocks(b):
    return set(ok_some_blocks(b))


def r2_expiry(ctx):
    rule = "C10.R2"
    ctx.rule(rule, "every serving path passes an expiry test whose expired edge does not serve; expired disk entries lose their file")
    prog = ctx.prog
    for name, c in CACHES.items():
        bs = [b for b in prog.find(self_ty=r"\b%s\b" % c["type"], item="get", closure=True) if b.coroutine and (b.trait or "").endswith("AsyncCache")]
        if not ctx.anchor(rule, bs, "%s::get" % c["type"]):
            continue
        b = bs[0]
        ctx.saw(b)
        serve = serving_blocks(b)
        exp = b.calls_matching(r"::is_expired$")
        if not (ctx.anchor(rule, serve, "Ok(Some(..)) in %s::get" % c["type"]) and ctx.anchor(rule, exp, "is_expired() in %s::get" % c["type"])):
            continue
        eb = {x.bb for x in exp}
        for sbk in sorted(serve):
            passes = must_pass(b, 0, {sbk}, eb)
            loc = "%s:%d" % (b.file, (b.blocks[sbk]["s"][-1]["l"] if b.blocks[sbk]["s"] else b.lines[0]))
            if passes:
                ctx.ok(rule, [b.id, "serve", sbk], "serving return passes an expiry test", loc, sample={"get": b.id, "serve_block": sbk})
            else:
                # which construct makes it serve without a test: an entry built with a constant `expires_at: None`?
                ctx.bad(rule, [b.id, "serves-without-expiry-test"],
                        "%s::get has a path that returns cached bytes without any expiry test (the not-indexed fallback reads the file found "
                        "on disk and re-indexes it with `expires_at: None`): a value written with a TTL by an earlier instance is served forever" % c["type"], loc)
        for x in exp:
            for (sbb, tt, ft) in bool_switches(b, x.dest[0]):
                ctx.check(not (b.reachable([tt]) & serve), rule, [b.id, "expired-edge"], "expired edge does not serve",
                          "%s::get serves the value on the `is_expired() == true` edge" % c["type"], x.loc())
                if name == "disk":
                    rm = [m.call for m in map_ops(b, c["map"]) if m.op in ("remove", "remove_entry")]
                    rm_on_edge = [m for m in rm if m.bb in b.reachable([tt])]
                    rf = {y.bb for y in b.calls_matching(r"^std::fs::remove_file$|^tokio::fs::remove_file")}
                    rets = set(b.return_blocks())
                    for n, m in enumerate(rm_on_edge):
                        # only the expiry branch: blocks reachable from the expired edge but not from the fresh edge
                        if m.bb in b.reachable([ft]):
                            continue
                        ctx.check(must_pass(b, m.bb, rets, rf), rule, [b.id, "expired-file-deleted#%d" % n], "expired entry's file is deleted with its index entry",
                                  "DiskCache::get drops an expired entry from the index (the only place its TTL is recorded) but leaves the file: the "
                                  "next get finds the file through the not-indexed fallback, re-indexes it without expiry and serves the expired value", m.loc())


def r3_books(ctx):
    rule = "C10.R3"
    ctx.rule(rule, "map mutations and counter updates are paired on the same path, conditional on the mutation's own result, on the cache's own counters")
    prog = ctx.prog
    n_ops = 0
    for name, c in CACHES.items():
        bodies = [b for b in prog.bodies.values() if b.krate == "cascette_cache" and re.search(c["file"], b.file) and (b.self_ty or "").find(c["type"]) >= 0]
        for b in sorted(bodies, key=lambda x: x.id):
            ops = map_ops(b, c["map"])
            cops = counter_ops(b, [c["count"], c["usage"]])
            if not ops and not cops:
                continue
            ctx.saw(b)
            count_ops = [(x, f, o) for (x, f, o) in cops if f == c["count"]]
            usage_ops = [(x, f, o) for (x, f, o) in cops if f == c["usage"]]
            # detached counters: a closure updating captured atomics that do not come from self
            for (x, f, o) in cops:
                fs = recv_fields(b, x)
                if ("upvar:" + f) in fs and b.parent:
                    par, sl = upvar_origin(prog, b, f)
                    from_self = bool(sl) and any(f in t for t in sl.fields)
                    ctx.check(from_self, rule, [b.id, "own-counter", f], "counter is the cache's own field",
                              "%s updates a captured `%s` that was created fresh in %s (Arc::new(Atomic..::new(0))) instead of the cache's own counter: "
                              "background removals are never reflected in size()/stats()" % (b.id, f, par.id if par else "?"), x.loc())
            for m in ops:
                n_ops += 1
                ctx.call_sites += 1
                call = m.call
                key = [b.id, m.op, call.bb]
                if m.op in ("remove", "remove_entry", "remove_if"):
                    edges = option_edges(b, call.dest[0])
                    subs_c = {x.bb for (x, f, o) in count_ops if o == "fetch_sub"}
                    subs_u = {x.bb for (x, f, o) in usage_ops if o == "fetch_sub"}
                    nexts = stop_blocks(b, call)
                    if not edges:
                        # result dropped: any decrement after it is unconditional
                        after = b.reachable(b.succ[call.bb], avoid=nexts)
                        unconditional = (after & subs_c) or (after & subs_u)
                        if unconditional:
                            ctx.bad(rule, [b.id, "remove-result-dropped"],
                                    "%s removes from `%s` and then decrements the counters without looking at what (if anything) was removed: when the "
                                    "key is already gone (two readers racing on one expired entry, or removed by the cleanup task) the counters "
                                    "drift below the real contents / wrap around" % (b.id, c["map"]), call.loc())
                        elif not cops and not b_root_has_counters(prog, b, c):
                            ctx.bad(rule, [b.id, "remove-without-books"],
                                    "%s removes entries from `%s` but never updates %s/%s" % (b.id, c["map"], c["count"], c["usage"]), call.loc())
                        else:
                            ctx.ok(rule, key, "remove result unused, no counter update follows", call.loc(), nontrivial=False)
                        continue
                    good = True
                    why = ""
                    for (some, none) in edges:
                        rs = b.reachable([some], avoid=nexts | {none})
                        rn = b.reachable([none], avoid=nexts | {some})
                        has_c = bool(rs & subs_c)
                        has_u = bool(rs & subs_u)
                        spurious = bool((rn - rs) & (subs_c | subs_u))
                        if not (has_c and has_u):
                            good = False
                            why = "the Some edge does not decrement %s" % ("either counter" if not (has_c or has_u) else (c["count"] if not has_c else c["usage"]))
                        else:
                            # ... on EVERY path: something was taken out of the map on this edge; a guard behind it (`Some(e) if !e.is_expired()`)
                            # that skips the decrements leaves the counters counting an entry that is gone
                            rets_ = set(b.return_blocks()) | set(ok_some_blocks(b)) | set(assigns_variant(b, "Ok"))
                            for subs_, nm_ in ((subs_c, c["count"]), (subs_u, c["usage"])):
                                if b.reachable([some], avoid=nexts | subs_) & rets_:
                                    good = False
                                    why = "a path from the Some edge reaches the return without decrementing %s (a guard behind the removal)" % nm_
                        if spurious:
                            good = False
                            why = "the None edge decrements a counter"
                    if good:
                        ctx.ok(rule, key, "Some edge decrements both counters, None edge none", call.loc(),
                               sample={"in": b.id, "op": call.name.split("::")[-1], "edges": edges[:1]})
                    else:
                        if not cops:
                            ctx.bad(rule, [b.id, "remove-without-books"],
                                    "%s removes entries from `%s` but never updates %s/%s (%s): size()/stats() keep counting entries that are gone" %
                                    (b.id, c["map"], c["count"], c["usage"], why), call.loc())
                        else:
                            ctx.bad(rule, [b.id, "remove-books", why], "%s: after `%s.remove` %s" % (b.id, c["map"], why), call.loc())
                elif m.op == "insert":
                    edges = option_edges(b, call.dest[0])
                    adds_c = {x.bb for (x, f, o) in count_ops if o == "fetch_add"}
                    adj_u = {x.bb for (x, f, o) in usage_ops if o in ("fetch_add", "fetch_sub")}
                    nexts = stop_blocks(b, call)
                    if not edges:
                        ctx.bad(rule, [b.id, "insert-result-dropped"],
                                "%s inserts into `%s` without looking at the replaced entry: a replace is counted as a new entry / the old size is never subtracted" % (b.id, c["map"]), call.loc())
                        continue
                    good = True
                    why = ""
                    for (some, none) in edges:
                        rs = b.reachable([some], avoid=nexts | {none})
                        rn = b.reachable([none], avoid=nexts | {some})
                        if not (rn & adds_c and rn & adj_u):
                            good, why = False, "a new entry does not increment both counters"
                        if (rs - rn) & adds_c:
                            good, why = False, "a replace increments the entry count"
                        if not (rs & adj_u):
                            good, why = False, "a replace does not adjust the byte usage by the size difference"
                    ctx.check(good, rule, key, "new: +1/+size; replace: usage adjusted only",
                              "%s: after `%s.insert` %s" % (b.id, c["map"], why), call.loc(),
                              sample={"in": b.id, "op": "insert", "edges": edges[:1]})
                elif m.op == "clear":
                    st_c = {x.bb for (x, f, o) in count_ops if o == "store"}
                    st_u = {x.bb for (x, f, o) in usage_ops if o == "store"}
                    rets = set(assigns_variant(b, "Ok")) or set(b.return_blocks())
                    good = bool(st_c) and bool(st_u) and must_pass(b, call.bb, rets, st_c) and must_pass(b, call.bb, rets, st_u)
                    ctx.check(good, rule, key, "clear resets both counters",
                              "%s clears `%s` without resetting both %s and %s on every successful path" % (b.id, c["map"], c["count"], c["usage"]), call.loc())
            # counter updates with no map mutation in the body
            if cops and not ops and not b.root:
                ctx.info("%s updates cache counters without mutating the map in the same body" % b.id)
    ctx.floor(rule, n_ops, 15, "map mutations in the cache implementations")


def b_root_has_counters(prog, b, c):
    return False


def stop_blocks(b, call):
    """blocks of later map mutations (a following remove/insert starts a new pairing scope) - none by default"""
    return set()


R4_ALLOW = {
    ("<DiskCache>::get_file_path", "create_dir_all"): (1, "path helper without an error channel; a missing directory fails the write that follows, and that error is propagated"),
}


def r4_store_errors(ctx):
    from .errflow import rule_persist
    rule_persist(ctx, "C10.R4", "cascette_cache", None, R4_ALLOW, 28, "cascette-cache")


STORE_FN = re.compile(r"::(put|put_with_ttl|put_validated|put_to_layer|put_with_validation|put_with_validation_and_ttl)::\{closure#0\}$")
STORE_CALL = re.compile(r"\b(DashMap|HashMap|BTreeMap|IndexMap)::<[^>]*>::insert$|::(put|put_with_ttl|put_validated|put_to_layer|put_with_validation|put_with_validation_and_ttl)$")


def r5_put_stores(ctx):
    """a single-key store that reports success has stored: every path from entry to an `Ok(..)` return passes a map insert on
    the cache's own index or a delegated put on a layer. (An early `return Ok(())` in front of the store - for empty values, for
    'uninteresting' keys - makes the next get return the previous value or nothing.)"""
    from .lib import assigns_variant
    rule = "C10.R5"
    ctx.rule(rule, "put / put_with_ttl / put_validated / put_to_layer / put_with_validation*: every path to an Ok return passes the store "
                   "(map insert on the cache's index, or the delegated put of a layer)")
    bodies = [b for b in ctx.prog.bodies.values() if b.krate == "cascette_cache" and b.coroutine and STORE_FN.search(b.id)]
    ctx.floor(rule, len(bodies), 12, "single-key store bodies in cascette-cache")
    n_ok = 0
    for b in bodies:
        ctx.saw(b)
        stores = {c.bb for c in b.calls if STORE_CALL.search(c.name) or STORE_CALL.search(c.orig_name or "")}
        if not ctx.anchor(rule, stores, "store call (map insert or delegated put) in %s" % b.id):
            continue
        oks = set(assigns_variant(b, "Ok", adt_pat=r"result::Result"))
        if not oks:
            # tail delegation: the value returned is the delegate's own result
            ctx.ok(rule, [b.id, "delegates"], "returns the result of the delegated store", b.loc(), nontrivial=False)
            continue
        n_ok += 1
        leak = b.reachable([0], avoid=stores) & oks
        ctx.check(not leak, rule, [b.id, "ok-after-store"], "every Ok return is behind the store",
                  "%s can return Ok without having stored anything: a path from the entry reaches the success return and passes neither the index "
                  "insert nor a delegated put, so a later get returns the value stored before (or nothing)" % ctx._stable(b.id), b.loc(),
                  sample={"fn": b.id, "store_blocks": len(stores), "ok_returns": len(oks)})
    ctx.floor(rule, n_ok, 4, "store bodies with an own Ok return")


def r6_stats_from_books(ctx):
    """what stats() reports as the current entry count / bytes is the cache's own book (the counters R3 pairs with every map mutation), not a
    metrics collector's running totals (which count puts and never subtract on replace / remove / expiry)"""
    rule = "C10.R6"
    ctx.rule(rule, "the entry_count / memory_usage_bytes a cache reports in CacheStats derive from loads of its own counters")
    n = 0
    for name, c in CACHES.items():
        for b in ctx.prog.bodies.values():
            if b.krate != "cascette_cache" or not re.search(c["file"], b.file or "") or b.item != "cache_stats" or b.root:
                continue
            for (i, j, st) in b.stmts():
                r = st["r"]
                if r["k"] != "Agg" or not str(r.get("adt", "")).endswith("stats::CacheStats") or i not in b.live_blocks():
                    continue
                ctx.saw(b)
                for fld, counter in (("entry_count", c["count"]), ("memory_usage_bytes", c["usage"])):
                    if fld not in r.get("fields", []):
                        continue
                    o = r["o"][r["fields"].index(fld)]
                    l = op_local(o)
                    own = False
                    if l is not None:
                        sl = Slice(b, [l], transparent=True)
                        own = any(re.search(r"Atomic\w*(::<\w+>)?::load$", x.name) and on_field(recv_fields(b, x), counter) for x in sl.calls)
                    n += 1
                    ctx.check(own, rule, [name, "stats", fld], "%s.stats().%s is a load of self.%s" % (c["type"], fld, counter),
                              "%s::cache_stats fills CacheStats.%s from something other than a load of its own counter `%s`: a metrics collector's total grows on "
                              "every put (replaces included) and never shrinks on remove or expiry, so after any replace / remove / expiry stats() reports more "
                              "than a reader can retrieve" % (c["type"], fld, counter), "%s:%s" % (b.file, st.get("l", 0)),
                              sample={"cache": c["type"], "field": fld, "counter": counter})
    ctx.floor(rule, n, 4, "book fields reported by cache_stats of the memory and disk caches")


def r7_clear_sweeps_everything(ctx):
    """DiskCache::clear leaves nothing a later get could serve: a new instance on an old directory serves files through the not-indexed fallback, so
    the directory sweep behind the index walk must remove EVERY file - on every iteration of its read_dir loop the entry is removed or descended into"""
    rule = "C10.R7"
    ctx.rule(rule, "the directory sweep reached from DiskCache::clear removes (or recurses into) every directory entry on every iteration path")
    clears = [b for b in ctx.prog.bodies.values() if b.krate == "cascette_cache" and re.search(r"disk_cache\.rs$", b.file or "") and
              re.search(r"AsyncCache.*::clear::\{closure#0\}$|DiskCache.*::clear::\{closure#0\}$", ctx._stable(b.id))]
    if not ctx.anchor(rule, clears, "DiskCache::clear"):
        return
    cl = ctx.prog.closure_of([b.id for b in clears])
    n = 0
    from .c12 import some_edge
    for bid in sorted(cl):
        b = ctx.prog.bodies.get(bid)
        if b is None or b.krate != "cascette_cache" or not any(re.search(r"^std::fs::read_dir$", c.name) for c in b.calls):
            continue
        nxs = [c for c in b.calls if c.bb in b.live_blocks() and re.search(r"\bIterator>?::next$", c.orig_name or c.name) and "ReadDir" in (c.full or "")]
        rm = {c.bb for c in b.calls if c.bb in b.live_blocks() and (re.search(r"^std::fs::(remove_file|remove_dir_all)$", c.name) or c.id == b.id)}
        for nx in nxs:
            n += 1
            ctx.saw(b)
            se = some_edge(b, nx)
            skipping = se is not None and nx.bb in b.reachable([se], avoid=rm)
            ctx.check(bool(rm) and se is not None and not skipping, rule, [b.id, "every-entry"], "every directory entry is removed or descended into",
                      "%s walks the cache directory for clear() but some path through the loop body neither removes the entry nor recurses into it (a filter on "
                      "the file name or extension): files that are not in this instance's index - everything written by an earlier instance - survive "
                      "clear() and are served again by the not-indexed fallback of get()" % ctx._stable(b.id), nx.loc(),
                      sample={"sweep": b.id, "remove_blocks": sorted(rm)})
    ctx.floor(rule, n, 1, "read_dir loops reached from DiskCache::clear")


def run(ctx):
    # E-names (rules/siblingfield.py): a local named after one field of a struct is not computed from its sibling
    from . import siblingfield
    siblingfield.rule_names(ctx, "C10.R9", ["cascette_cache"])
    # E-drop (rules/dropped.py): no bool result of a function of these modules is thrown away by a caller anywhere in the workspace
    from . import dropped
    dropped.rule_dropped(ctx, "C10.R8", [k for k in ["cascette_formats", "cascette_client_storage", "cascette_cache", "cascette_protocol", "cascette_ribbit"] if k in (CRATES or [])] or CRATES, r"cascette-cache/src/", floor=20)
    r6_stats_from_books(ctx)
    r7_clear_sweeps_everything(ctx)
    r4_store_errors(ctx)
    r5_put_stores(ctx)
    r1_limits(ctx)
    r2_expiry(ctx)
    r3_books(ctx)


from .selftest import for_families as _ff  # noqa: E402
selftest = _ff(['gate', 'lock', 'errflow', 'drop'])
