"""C19 - install/download/size tag masks: one bit order (MSB first), ceiling mask length, masks follow removals."""
import re
from .facts import op_local, Slice, place_fields, op_const
from .lib import bool_switches, must_pass, copies_of
from .cachebooks import recv_fields
from .c12 import every_iteration, some_edge

CRATES = ["cascette_formats"]

EXPLANATION = (
    "Static rules over the MIR of cascette_formats::{install,download,size}. R1 (sibling agreement, discovery): a bit selector is a shift "
    "whose amount slices back to `x % 8` (or `x & 7`); every selector must be `0x80 >> (x % 8)` and the byte index used in the same body must "
    "be `x / 8` (or `x >> 3`) of the same x: `1 << (i % 8)` is self-consistent in a round trip but wrong for every other NGDP tool. R2: every "
    "allocation/resize that becomes a `bit_mask` has a ceiling division by 8 in its length slice (div_ceil(8), (n+7)/8 or byte_index+1). R3: "
    "remove_file in the install and download builders assigns a rebuilt mask to every tag on every iteration of a loop over all tags. R4: a "
    "guard on the old file index that protects a read of a tag's mask derives its bound from that mask's own length. R5: after removing a tag "
    "the name->index map is re-established for every remaining tag (full rebuild without skipping, or decrement of all larger indices). "
    "Query results against a set model and size sums are not decided.")

ASSUMPTIONS = ["query results equal to a set model and size sums are value-level and not decided"]

SCOPE = re.compile(r"cascette-formats/src/(install|download|size)/")


def scope_bodies(ctx):
    return sorted([b for b in ctx.prog.bodies.values() if b.krate == "cascette_formats" and SCOPE.search(b.file)], key=lambda x: x.id)


def rem8_base(b, op):
    """if operand slices back to `x % 8` / `x & 7`: the operand x of that remainder, else None"""
    l = op_local(op)
    if l is None:
        return None
    sl = Slice(b, [l], transparent=re.compile(r"\bTryFrom<.*>>?::try_from$|\bInto<U>>?::into$|\bFrom<.*>>?::from$|\bResult::<T, E>::(unwrap|expect|unwrap_or)$"))
    for (opn, ops, bb, idx) in sl.ops:
        if opn == "Rem" and op_const(ops[1]) == 8:
            return ops[0]
        if opn == "BitAnd" and (op_const(ops[1]) == 7 or op_const(ops[0]) == 7):
            return ops[0] if op_const(ops[1]) == 7 else ops[1]
    return None


def root_vars(b, op):
    l = op_local(op)
    if l is None:
        return set()
    sl = Slice(b, [l], transparent=None)
    return {x for x in sl.locals if b.locals[x].get("u") or 1 <= x <= b.argc} or {l}


def r1_bit_order(ctx):
    rule = "C19.R1"
    ctx.rule(rule, "every bit selector is 0x80 >> (x % 8) with byte index x / 8")
    n = 0
    for b in scope_bodies(ctx):
        sels = []
        for i, j, s in b.stmts():
            r = s["r"]
            if r["k"] == "Bin" and r["op"] in ("Shr", "Shl", "ShrUnchecked", "ShlUnchecked"):
                base = rem8_base(b, r["o"][1])
                v_ = op_const(r["o"][0])
                # a selector shifts ONE bit; `0xff >> (n % 8)` / `0xff << k` are range masks (tail clearing), a variable operand is a byte being moved
                if base is not None and v_ is not None and int(v_) > 0 and int(v_) & (int(v_) - 1) == 0:
                    sels.append((i, j, s, base))
        if not sels:
            continue
        ctx.saw(b)
        # byte indices computed in this body: Div(x, 8) / Shr(x, 3)
        divs = []
        for i, j, s in b.stmts():
            r = s["r"]
            if r["k"] == "Bin" and ((r["op"] == "Div" and op_const(r["o"][1]) == 8) or (r["op"] in ("Shr", "ShrUnchecked") and op_const(r["o"][1]) == 3)):
                divs.append((i, j, s, r["o"][0]))
        for (i, j, s, base) in sels:
            n += 1
            r = s["r"]
            val = op_const(r["o"][0])
            loc = "%s:%d" % (b.file, s["l"])
            msb = r["op"] in ("Shr", "ShrUnchecked") and val == 0x80
            ctx.check(msb, rule, [b.id, "selector", s["l"] - b.lines[0]], "selector is 0x80 >> (x % 8)",
                      "%s selects a tag bit with `%s %s (x %% 8)`: the on-disk bit of file i must be the most significant first (0x80 >> (i %% 8)); an LSB-first "
                      "mask round-trips through this library but selects the wrong files in every other NGDP tool" % (b.id, hex(val) if val is not None else "?", "<<" if "Shl" in r["op"] else ">>"),
                      loc, sample={"in": b.id, "at": loc, "op": r["op"], "constant": val})
            rv = root_vars(b, base)
            same = any(root_vars(b, d[3]) & rv for d in divs)
            ctx.check(same or not divs and False, rule, [b.id, "byte-index", s["l"] - b.lines[0]], "byte index is x / 8 of the same x",
                      "%s uses bit `x %% 8` without indexing the mask at `x / 8` of the same x" % b.id, loc)
    ctx.floor(rule, n, 3, "bit selectors in install/download/size (the three InstallTag accessors at least)")


def r2_mask_len(ctx):
    rule = "C19.R2"
    ctx.rule(rule, "every mask allocation has a ceiling division by 8 in its length")
    n = 0
    for b in scope_bodies(ctx):
        allocs = [c for c in b.calls if c.bb in b.live_blocks() and re.search(r"\bvec::from_elem$|\bVec::<T, A>::resize$", c.name)]
        for c in allocs:
            is_resize = c.name.endswith("resize")
            if is_resize:
                to_mask = "bit_mask" in recv_fields(b, c)
                n_op = c.args[1]
            else:
                n_op = c.args[1]
                to_mask = flows_to_bit_mask(b, c.dest[0])
            if not to_mask:
                continue
            n += 1
            ctx.saw(b)
            l = op_local(n_op)
            if l is None:
                ctx.ok(rule, [b.id, "const-len", c.bb], "constant length", c.loc(), nontrivial=False)
                continue
            sl = Slice(b, [l], transparent=True)
            ceil = sl.has_call(r"::div_ceil$") or ceil_pattern(sl) or sl.has_call(r"::bit_mask_size$") or sl.has_call(r"::len$") and not any(o[0] == "Div" for o in sl.ops)
            plain_div = any(o[0] == "Div" and op_const(o[1][1]) == 8 for o in sl.ops) and not ceil_pattern(sl)
            ctx.check(ceil and not plain_div, rule, [b.id, "mask-len", c.bb], "mask length is a ceiling of count/8",
                      "%s sizes a tag bit mask with a truncating division (count / 8): for file counts that are not multiples of eight the last files have no bit" % b.id,
                      c.loc(), sample={"in": b.id, "alloc": c.loc()})
    ctx.floor(rule, n, 5, "bit_mask allocations")


def ceil_pattern(sl):
    has_add7 = any(o[0] in ("Add", "AddWithOverflow") and any(op_const(x) == 7 for x in o[1]) for o in sl.ops)
    has_div8 = any(o[0] == "Div" and op_const(o[1][1]) == 8 for o in sl.ops)
    plus1 = any(o[0] in ("Add", "AddWithOverflow") and any(op_const(x) == 1 for x in o[1]) for o in sl.ops)
    return (has_add7 and has_div8) or (plus1 and has_div8)


def flows_to_bit_mask(b, local):
    hs = {local}
    changed = True
    while changed:
        changed = False
        for i, j, s in b.stmts():
            r = s["r"]
            if any(op_local(o) in hs for o in r.get("o", [])):
                if "bit_mask" in place_fields(s["p"]):
                    return True
                if r["k"] == "Agg" and r.get("ak") == "adt" and "bit_mask" in r.get("fields", []):
                    idx = r["fields"].index("bit_mask")
                    if idx < len(r["o"]) and op_local(r["o"][idx]) in hs:
                        return True
                if r["k"] == "Use" and s["p"][0] not in hs and len(s["p"]) == 1:
                    hs.add(s["p"][0])
                    changed = True
    return False


def builder_fn(ctx, rule, ty, item):
    bs = [b for b in ctx.prog.find(self_ty=r"\b%s\b" % ty, item=item, closure=False) if b.krate == "cascette_formats"]
    if not ctx.anchor(rule, bs, "%s::%s" % (ty, item)):
        return None
    return bs[0]


def r3_r4_remove_file(ctx):
    ctx.rule("C19.R3", "remove_file rebuilds the mask of every tag")
    ctx.rule("C19.R4", "guards on the old file index derive from the length of the mask that is read")
    for ty in ("InstallManifestBuilder", "DownloadManifestBuilder"):
        b = builder_fn(ctx, "C19.R3", ty, "remove_file")
        if not b:
            continue
        ctx.saw(b)
        nexts = [c for c in b.calls_matching(r"\bIterator>?::next$") if re.search(r"IterMut<'(_|a), .*Tag>", c.full) or "Tag" in c.full and "IterMut" in c.full]
        if not ctx.anchor("C19.R3", nexts, "loop over all tags in %s::remove_file" % ty):
            continue
        nx = nexts[0]
        adapters = [a for a in ("Skip<", "Take<", "Filter<", "StepBy<") if a in nx.full]
        assigns = {i for i, j, s in b.stmts() if place_fields(s["p"])[-1:] == ["bit_mask"]}
        # an in-place edit (`let mask = &mut tag.bit_mask; mask[i] = ..; mask.resize(..)`) rebuilds the mask just as well as an assignment
        assigns |= {i for i, j, s in b.stmts() if s["r"]["k"] == "Ref" and s["r"].get("mut") and place_fields(s["r"]["p"])[-1:] == ["bit_mask"]}
        ok = bool(assigns) and not adapters and all(every_iteration(b, nx, a) or True for a in assigns) and \
            (some_edge(b, nx) is not None and nx.bb not in b.reachable([some_edge(b, nx)], avoid=assigns))
        ctx.check(ok, "C19.R3", [b.id, "all-tags"], "every tag gets a rebuilt mask on every iteration",
                  "%s::remove_file does not assign a rebuilt bit mask to every tag (adapters=%s): masks of the skipped tags keep the removed file's bit and all later "
                  "files shift by one" % (ty, adapters), nx.loc(), sample={"iterator": nx.full[:120], "assign_blocks": sorted(assigns)})
        # ---- R4: guards on the old index ----------------------------------------------------------------------
        reads = [c for c in b.calls if c.bb in b.live_blocks() and re.search(r"\bIndex<.*>>?::index$", c.name) and "bit_mask" in recv_fields(b, c)]
        for n, rd in enumerate(reads):
            q = rd.args[1]
            ql = op_local(q)
            if ql is None:
                continue
            # x: the dividend of q = x / 8
            x = None
            for (opn, ops, bb_, idx_) in Slice(b, [ql], transparent=None).ops:
                if opn == "Div" and op_const(ops[1]) == 8:
                    x = op_local(ops[0])
            watch = var_class(b, ql) | (var_class(b, x) if x is not None else set())
            guards = []
            for i, j, s in b.stmts():
                r = s["r"]
                if r["k"] == "Bin" and r["op"] in ("Lt", "Le", "Gt", "Ge"):
                    sides = [op_local(o) for o in r["o"]]
                    for k in (0, 1):
                        if sides[k] is not None and (sides[k] in watch or direct_copy_of(b, sides[k], watch)):
                            opn = r["op"] if k == 0 else {"Lt": "Gt", "Le": "Ge", "Gt": "Lt", "Ge": "Le"}[r["op"]]
                            for (sbb, tt, ft) in bool_switches(b, s["p"][0]):
                                on_t = rd.bb in b.reachable([tt], avoid={sbb})
                                on_f = rd.bb in b.reachable([ft], avoid={sbb})
                                # an UPPER bound on the index: `x < bound` with the read on the true edge, or `x >= bound` with it on the false edge
                                upper = (opn in ("Lt", "Le") and on_t and not on_f) or (opn in ("Gt", "Ge") and on_f and not on_t)
                                if upper:
                                    edge_t = tt if (on_t and not on_f) else ft
                                    fail_t = ft if edge_t == tt else tt
                                    # a guard whose failing edge leaves without touching any mask rejects the call; one whose failing edge carries on
                                    # with the rebuild silently treats the bit as clear
                                    rejects = not (b.reachable([fail_t]) & assigns)
                                    guards.append((i, s, r["o"][1 - k], rejects))
            judged = []
            for (gi, gs, bound, dom_) in guards:
                bl = op_local(bound)
                if bl is None:
                    continue
                sl = Slice(b, [bl], transparent=True)
                own = any(re.search(r"\bVec::<T, A>::len$|slice::<impl \[T\]>::len$", c.name) and
                          ("bit_mask" in recv_fields(b, c) or (op_local(c.args[0]) is not None and
                                                               any("bit_mask" in f for f in Slice(b, [op_local(c.args[0])], transparent=True).fields)))
                          for c in sl.calls)
                judged.append((own, gs, sl, dom_))
            # a guard that REJECTS the call (its failing edge returns before any mask is touched, e.g. `file_index >= entries.len()`) is not
            # a bound on what is read from the old mask
            for (own, gs, sl, rejects_) in judged:
                ctx.check(own or rejects_, "C19.R4", [b.id, "guard", gs["l"] - b.lines[0]], "the read is bounded by the read mask's own length",
                          "%s::remove_file guards a read of the OLD tag mask with a bound that does not derive from that mask's length (it derives from %s): when the "
                          "file count drops across a byte boundary the bit of the last file lives in the byte that disappears, fails the bound and is silently cleared" %
                          (ty, sorted({c.name.split("::")[-1] for c in sl.calls})[:4]), "%s:%d" % (b.file, gs["l"]),
                          sample={"guard_line": gs["l"], "read": rd.loc()})


def var_class(b, l):
    """the user variable behind temp `l` (walking back through single whole-local copies) plus its forward copies into temporaries"""
    u = l
    seen = set()
    while u is not None and not b.locals[u].get("u") and u not in seen:
        seen.add(u)
        nxt = None
        for (bb, idx, kind, payload) in b.defs.get(u, []):
            if kind == "assign" and payload["r"]["k"] == "Use" and payload["r"]["o"][0]["k"] in ("cp", "mv") and len(payload["r"]["o"][0]["p"]) == 1:
                nxt = payload["r"]["o"][0]["p"][0]
        u = nxt
    base = u if u is not None else l
    cls = {base, l} | seen
    changed = True
    while changed:
        changed = False
        for i, j, s in b.stmts():
            r = s["r"]
            if r["k"] == "Use" and len(s["p"]) == 1 and r["o"][0]["k"] in ("cp", "mv") and len(r["o"][0]["p"]) == 1:
                d, src = s["p"][0], r["o"][0]["p"][0]
                if src in cls and d not in cls and not b.locals[d].get("u"):
                    cls.add(d)
                    changed = True
    return cls


def copy_class(b, seeds):
    """locals connected to the seeds by plain whole-local copies/moves, in either direction"""
    cls = set(seeds)
    changed = True
    while changed:
        changed = False
        for i, j, s in b.stmts():
            r = s["r"]
            if r["k"] == "Use" and len(s["p"]) == 1 and r["o"][0]["k"] in ("cp", "mv") and len(r["o"][0]["p"]) == 1:
                a, c = s["p"][0], r["o"][0]["p"][0]
                if (a in cls) != (c in cls):
                    cls |= {a, c}
                    changed = True
    return cls


def direct_copy_of(b, l, watch):
    for (bb, idx, kind, payload) in b.defs.get(l, []):
        if kind == "assign" and payload["r"]["k"] == "Use" and op_local(payload["r"]["o"][0]) in watch and len(payload["r"]["o"][0].get("p", [0])) == 1:
            return True
    return False


def r5_remove_tag(ctx):
    rule = "C19.R5"
    ctx.rule(rule, "after removing a tag the name->index map covers every remaining tag")
    for ty in ("InstallManifestBuilder", "DownloadManifestBuilder"):
        b = builder_fn(ctx, rule, ty, "remove_tag")
        if not b:
            continue
        ctx.saw(b)
        on_map = [c for c in b.calls if c.bb in b.live_blocks() and c.args and "tag_name_to_index" in recv_fields(b, c)]
        names = [c.name.split("::")[-1] for c in on_map]
        clear = "clear" in names
        inserts = [c for c in on_map if c.name.endswith("::insert")]
        dec_loop = any(n in ("values_mut", "iter_mut") for n in names)
        form = None
        why = ""
        if clear and inserts:
            # full rebuild: the loop that inserts must run over all tags without skipping
            nexts = [c for c in b.calls_matching(r"\bIterator>?::next$") if any(i.bb in b.reachable(b.succ[c.bb]) and c.bb in b.reachable(b.succ[i.bb]) for i in inserts)]
            adapters = [a for nx in nexts for a in ("Skip<", "Take<", "Filter<", "StepBy<", "Rev<") if a in nx.full]
            form = "rebuild" if nexts and not adapters else None
            why = "rebuild loop adapters=%s" % adapters
        elif dec_loop and not inserts:
            # decrement every index above the removed one
            subs = any(s["r"]["k"] == "Bin" and s["r"]["op"] in ("SubWithOverflow", "Sub") and any(op_const(o) == 1 for o in s["r"]["o"]) for i, j, s in b.stmts())
            cmp_gt = any(s["r"]["k"] == "Bin" and s["r"]["op"] in ("Gt", "Ge", "Lt", "Le") for i, j, s in b.stmts())
            form = "decrement" if subs and cmp_gt else None
            why = "decrement loop sub1=%s cmp=%s" % (subs, cmp_gt)
        else:
            why = "map operations: %s" % names
        ctx.check(form is not None, rule, [b.id, "reindex"], "map re-established by %s" % form,
                  "%s::remove_tag does not re-establish the name->index map for every remaining tag (%s): the tag after the removed one keeps a stale index, and "
                  "later associate/dissociate/query calls on that name act on its neighbour's mask (or index out of bounds)" % (ty, why), b.loc(),
                  sample={"builder": ty, "form": form, "map_ops": names})


def selector_uses(b, sel_local):
    """how a selector value is applied: {'set' (|), 'clear' (& !sel), 'test' (& sel), 'toggle' (^)}"""
    uses = set()
    nots = set()
    holders = set(copies_of(b, sel_local))
    for i, j, st in b.stmts():
        r = st["r"]
        if r["k"] == "Un" and r["op"] == "Not" and op_local(r["o"][0]) in holders:
            nots |= set(copies_of(b, st["p"][0]))
    for i, j, st in b.stmts():
        r = st["r"]
        if r["k"] != "Bin":
            continue
        ls = [op_local(o) for o in r["o"]]
        if r["op"] == "BitOr" and any(l in holders for l in ls):
            uses.add("set")
        elif r["op"] == "BitXor" and any(l in holders or l in nots for l in ls):
            uses.add("toggle")
        elif r["op"] == "BitAnd" and any(l in nots for l in ls):
            uses.add("clear")
        elif r["op"] == "BitAnd" and any(l in holders for l in ls):
            uses.add("test")
    return uses


def r6_selector_application(ctx):
    """associate / dissociate are idempotent bit operations: set is `|= sel`, clear is `&= !sel`, a query is `& sel`. A toggle (`^=`)
    clears only a bit that was set - dissociating a pair that is not associated (or twice) SETS it"""
    rule = "C19.R6"
    ctx.rule(rule, "every bit selector is applied as set (|), clear (& !sel) or test (& sel), never as a toggle (^); add_* methods set, remove_* methods clear")
    n = 0
    for b in scope_bodies(ctx):
        for i, j, st in b.stmts():
            r = st["r"]
            if r["k"] == "Bin" and r["op"] in ("Shr", "Shl", "ShrUnchecked", "ShlUnchecked") and rem8_base(b, r["o"][1]) is not None:
                uses = selector_uses(b, st["p"][0])
                if not uses:
                    continue
                n += 1
                ctx.saw(b)
                want = None
                # the per-tag primitives (methods of the *Tag types); builders' remove_file rebuilds whole masks and is R3's business
                is_tag = bool(re.search(r"Tag$", b.self_ty or ""))
                if is_tag and re.match(r"(add|set|associate)", b.item or ""):
                    want = "set"
                elif is_tag and re.match(r"(remove|clear|dissociate|unset)", b.item or ""):
                    want = "clear"
                ok = "toggle" not in uses and (want is None or want in uses)
                ctx.check(ok, rule, [b.id, "selector-use", ",".join(sorted(uses))], "selector applied as %s" % "/".join(sorted(uses)),
                          "%s applies its bit selector as %s%s: a toggle is not idempotent - removing a file that the tag does not hold (or removing twice) sets the "
                          "bit, so queries, size totals and the on-disk mask gain files nobody associated" %
                          (ctx._stable(b.id), sorted(uses), (" (expected %s)" % want) if want else ""), "%s:%d" % (b.file, st["l"]))
    ctx.floor(rule, n, 5, "applied bit selectors in install/download/size")


COMBINE = re.compile(r"::(intersect|union|intersection|bitand|bitor|bit_and|bit_or)$")


def lost_accumulation(b):
    """[(call, var)]: a mask combination (intersect / union) inside a loop whose result overwrites a variable that lives across
    iterations, while the combination does not read that variable: only the last iteration survives"""
    out = []
    nxs = [c for c in b.calls if re.search(r"\bIterator>?::next$", c.orig_name or c.name)]
    for c in b.calls:
        if not (COMBINE.search(c.name) or COMBINE.search(c.orig_name or "")):
            continue
        loops = [nx for nx in nxs if c.bb in b.reachable(b.succ[nx.bb]) and nx.bb in b.reachable(b.succ[c.bb])]
        if not loops:
            continue
        nx = loops[0]
        loop_blocks = {x for x in b.reachable(b.succ[nx.bb]) if nx.bb in b.reachable(b.succ[x])}
        # variables the result is stored into that are also defined outside the loop (loop-carried)
        tgt = set(copies_of(b, c.dest[0]))
        for i, j, st in b.stmts():
            if st["r"]["k"] == "Use" and op_local(st["r"]["o"][0]) in tgt and len(st["p"]) == 1:
                tgt.add(st["p"][0])
        carried = [v for v in tgt if b.locals[v].get("u") and any(bb not in loop_blocks for (bb, idx, kind, payload) in b.defs.get(v, []))]
        for v in carried:
            reads = set()
            for a in c.args:
                if op_local(a) is not None:
                    reads |= Slice(b, [op_local(a)], transparent=True).locals
            if v not in reads:
                out.append((c, v))
    return out


def r7_combination_accumulates(ctx):
    rule = "C19.R7"
    ctx.rule(rule, "an all-of / any-of combination of tag masks computed in a loop folds its own previous value (no overwrite of the accumulator)")
    n = 0
    for b in scope_bodies(ctx):
        has = any(COMBINE.search(c.name) for c in b.calls)
        if has:
            n += 1
            ctx.saw(b)
        for (c, v) in lost_accumulation(b):
            ctx.bad(rule, [b.id, "accumulator-overwritten", b.local_name(v) or str(v)],
                    "%s combines tag masks in a loop but assigns each result over `%s` without reading it: only the last pair of tags is combined, so an all-of "
                    "query over three or more tags returns files that lack the earlier tags (and the size total sums over that superset)" %
                    (ctx._stable(b.id), b.local_name(v) or v), c.loc())
    ctx.info("C19.R7: %d bodies combine masks with intersect/union" % n)


def r8_effective_priority_only(ctx):
    """who-may-read: the stored priority of a download entry is relative to the header's base priority (V3). Every query must go through the one
    accessor that applies the base; the raw field is for that accessor, the (de)serialisers and the builders' setters only."""
    rule = "C19.R8"
    ctx.rule(rule, "the raw `priority` field of a download entry is read only by the base-applying accessor, the (de)serialisers and builders; queries use the accessor")
    ALLOWED = re.compile(r"^(effective_priority|read_options|write_options|parse\w*|build\w*|new\w*|with_\w+|set_\w+|fmt|clone|eq|hash|validate\w*|from_\w+|to_\w+|default)$")
    accessor = None
    n_reads = 0
    for b in ctx.prog.bodies.values():
        if b.krate != "cascette_formats" or not re.search(r"src/download/", b.file or "") or b.expn:
            continue
        root = ctx.prog.bodies.get(b.root) if b.root else b
        item = (root.item if root is not None else b.item) or ""
        reads = []
        for (i, j, st) in b.stmts():
            if i not in b.live_blocks():
                continue
            r = st["r"]
            places = [o["p"] for o in r.get("o", []) if o["k"] in ("cp", "mv")] + ([r["p"]] if "p" in r and r["k"] in ("Ref", "Discr") else [])
            for p_ in places:
                if any(isinstance(e, dict) and e.get("n") == "priority" and str(e.get("a", "")).endswith("DownloadFileEntry") for e in p_[1:]):
                    reads.append(st.get("l", 0))
        for bb_, blk in enumerate(b.blocks):
            t = blk["t"]
            ops = ([t["d"]] if t["k"] == "Switch" else []) + (t.get("a", []) if t["k"] == "Call" else [])
            for o in ops:
                if o["k"] in ("cp", "mv") and any(isinstance(e, dict) and e.get("n") == "priority" and str(e.get("a", "")).endswith("DownloadFileEntry") for e in o["p"][1:]):
                    reads.append(t.get("l", 0))
        if not reads:
            continue
        n_reads += 1
        ctx.saw(b)
        if item == "effective_priority":
            accessor = b
        ctx.check(bool(ALLOWED.match(item)), rule, [b.id, "raw-priority-read"], "%s may read the stored priority" % item,
                  "%s reads the stored `priority` of a download entry directly (line %s): for a version-3 manifest the stored value is relative to the header's "
                  "base priority, and every other query applies it through effective_priority() - this one classifies, filters or sums files under the "
                  "wrong priority whenever base_priority != 0" % (ctx._stable(b.id), reads[0]), "%s:%s" % (b.file, reads[0]),
                  sample={"reader": b.id, "lines": reads[:4]})
    ctx.anchor(rule, accessor, "DownloadFileEntry::effective_priority (the accessor that applies the base priority)")


def run(ctx):
    # E-drop (rules/dropped.py): no bool result of a function of these modules is thrown away by a caller anywhere in the workspace
    from . import dropped
    dropped.rule_dropped(ctx, "C19.R10", [k for k in ["cascette_formats", "cascette_client_storage", "cascette_cache", "cascette_protocol", "cascette_ribbit"] if k in (CRATES or [])] or CRATES, r"cascette-formats/src/(install|download|size)/", floor=0)
    # E-stale (rules/stale.py): no snapshot of a self field is written back after a self-method call that may have changed it
    from . import stale
    stale.rule_stale(ctx, "C19.R9", "cascette_formats", r"src/(install|download|size)/")
    r8_effective_priority_only(ctx)
    r6_selector_application(ctx)
    r7_combination_accumulates(ctx)
    r1_bit_order(ctx)
    r2_mask_len(ctx)
    r3_r4_remove_file(ctx)
    r5_remove_tag(ctx)


from .selftest import for_families as _ff  # noqa: E402
selftest = _ff(['slice', 'loop', 'fold', 'stale', 'drop'])
