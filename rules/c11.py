"""C11 - concurrent cache/storage use keeps its books (structural clauses: stale check-then-act, counter
provenance and atomicity, temp-name sharing, lock discipline, exclusive allocation)."""
import re, collections
from .facts import op_local, Slice, place_fields, op_const
from .lib import bool_switches, enum_switches, must_pass, result_local
from .cachebooks import (map_ops, counter_ops, option_edges, recv_fields, on_field, RECV_TRANSPARENT, ATOMIC_OPS)
from .locks import held_analysis, LockSummaries, classify, lock_id, SYNC_FAMILIES

# RwLocks that queue new readers behind a waiting writer (parking_lot: "readers trying to acquire the lock will block even if the lock is unlocked
# when there are writers waiting"; tokio: write-preferring FIFO). read_recursive is not used in the workspace (checked by grep on the pinned tree).
FAIR_FAMILIES = ("parking_lot", "tokio")
from . import c12, c06

CRATES = ["cascette_cache", "cascette_client_storage", "cascette_protocol", "cascette_crypto", "cascette_formats"]

EXPLANATION = (
    "Static rules over the MIR of cascette-cache, cascette-client-storage and cascette-protocol. R1: a map removal that is dominated by "
    "a look at the same map whose guard/lock section has ended, and that does not re-validate under the removing operation (remove_if / "
    "re-check inside the write section), deletes whatever a concurrent writer put there in between. R2: the byte delta subtracted from a "
    "usage counter derives from the entry the removal actually returned, not from a snapshot read earlier. R3: a temp-then-rename routine "
    "that can run concurrently for one destination (reachable through &self) needs a per-invocation component in its temp name. R4: the "
    "lock-order graph (edge A->B when B is acquired, directly or in a callee, while A's guard is live) is acyclic; no lock is re-acquired "
    "while held; no sync guard is live across an await. R5: shared counters are updated with atomic read-modify-write operations only "
    "(no store of a value derived from a load of the same atomic). R6: the allocate-write-advance sequence of the archive writer runs under "
    "exclusive access (receiver &mut self, or an exclusive guard of the position table spanning it). Linearizability itself needs schedules "
    "and is not decided.")

ASSUMPTIONS = ["lock identity by (struct, field); &self receivers inside one impl denote one object",
               "linearizability over schedules, torn values and final-count equality are not decided"]

CACHE_FILES = {
    "memory": {"file": r"cascette-cache/src/memory_cache\.rs$", "map": "storage", "usage": "memory_usage", "count": "entry_count", "type": "MemoryCache"},
    "disk": {"file": r"cascette-cache/src/disk_cache\.rs$", "map": "index", "usage": "disk_usage", "count": "entry_count", "type": "DiskCache"},
}
LOOK = re.compile(r"^dashmap::DashMap::<K, V, S>::(get|get_mut|contains_key)$|\bHashMap::<K, V, S, A>::(get|get_mut|contains_key)$")
LOCK_KRATES = ["cascette_cache", "cascette_client_storage", "cascette_protocol"]


def bodies_of(ctx, c):
    return sorted([b for b in ctx.prog.bodies.values() if re.search(c["file"], b.file)], key=lambda x: x.id)


def r1_r2(ctx):
    ctx.rule("C11.R1", "no removal acts on a check whose guard / lock section has ended, without re-validation under the removal")
    ctx.rule("C11.R2", "the byte delta of a removal comes from the removed entry")
    n = 0
    for name, c in CACHE_FILES.items():
        for b in bodies_of(ctx, c):
            ops = [m for m in map_ops(b, c["map"]) if m.op in ("remove", "remove_entry", "remove_if")]
            if not ops:
                continue
            ctx.saw(b)
            at, births = held_analysis(b)
            looks = [x for x in b.calls if x.bb in b.live_blocks() and LOOK.search(x.name) and on_field(recv_fields(b, x), c["map"])]
            uops = [(x, f, o) for (x, f, o) in counter_ops(b, [c["usage"]]) if o == "fetch_sub"]
            for m in ops:
                n += 1
                ctx.call_sites += 1
                r = m.call
                key = [b.id, m.op, r.bb]
                # ---- R1 -------------------------------------------------------------------------------------
                stale = []
                for lk in looks:
                    if lk.bb == r.bb or not b.dominates(lk.bb, r.bb):
                        continue
                    # still under the same guard / lock section? (a guard born at or before the look, alive at the removal)
                    held_r = at.get(r.bb, frozenset())
                    held_l = at.get(lk.bb, frozenset())
                    same_section = any(h in held_l or h.site == lk.loc() for h in held_r if h.lock[1] == c["map"])
                    if same_section:
                        continue
                    stale.append(lk)
                if m.op == "remove_if":
                    ctx.ok("C11.R1", key, "removal re-validates atomically (remove_if)", r.loc(), sample={"in": b.id, "op": "remove_if"})
                elif stale and not revalidated(b, r, c, at):
                    ctx.bad("C11.R1", [b.id, "stale-check-remove"],
                            "%s looks at `%s` (at %s), lets the guard / lock section end, and then removes the key unconditionally: a value "
                            "written by another task in between (e.g. a fresh put after the old entry expired) is deleted" % (b.id, c["map"], stale[0].loc()),
                            r.loc(), {"look": stale[0].loc(), "remove": r.loc()})
                else:
                    ctx.ok("C11.R1", key, "removal not preceded by a released look, or re-validated", r.loc(),
                           sample={"in": b.id, "remove": r.loc(), "earlier_looks": [x.loc() for x in looks if b.dominates(x.bb, r.bb) and x.bb != r.bb]})
                # ---- R2 -------------------------------------------------------------------------------------
                after = b.reachable(b.succ[r.bb])
                for (x, f, o) in uops:
                    if x.bb not in after:
                        continue
                    if len(x.args) < 2 or op_local(x.args[1]) is None:
                        continue
                    sl = Slice(b, [op_local(x.args[1])], transparent=True)
                    from_removed = r.dest[0] in sl.locals
                    if from_removed:
                        ctx.ok("C11.R2", [b.id, "delta", x.bb], "delta derives from the removed entry", x.loc(),
                               sample={"in": b.id, "fetch_sub": x.loc(), "remove": r.loc()})
                    else:
                        # nearest removal wins: only blame the removal that immediately precedes the decrement
                        later = [m2 for m2 in ops if m2.call.bb != r.bb and m2.call.bb in after and x.bb in b.reachable(b.succ[m2.call.bb])]
                        if later:
                            continue
                        ctx.bad("C11.R2", [b.id, "delta-from-snapshot", c["usage"]],
                                "%s subtracts from `%s` a size that was read before the removal (from a dropped guard / cloned snapshot), not the "
                                "size of the entry the removal returned: if the entry was replaced in between, the counter is off by the difference" % (b.id, c["usage"]),
                                x.loc(), {"remove": r.loc()})
    ctx.floor("C11.R1", n, 12, "map removals in memory_cache.rs / disk_cache.rs")


def revalidated(b, r, c, at):
    """inside the lock section that performs the removal, the entry is looked at again before removing"""
    held_r = [h for h in at.get(r.bb, ()) if h.lock[1] == c["map"]]
    if not held_r:
        return False
    for x in b.calls:
        if x.bb == r.bb or not LOOK.search(x.name):
            continue
        if not on_field(recv_fields(b, x), c["map"]):
            continue
        hx = at.get(x.bb, frozenset())
        if any(h in hx for h in held_r) and b.dominates(x.bb, r.bb):
            return True
    return False


UNIQUE = re.compile(r"process::id$|thread::current$|ThreadId|Uuid|uuid::|rand::|\brng$|random|fetch_add$|SystemTime::now$|Instant::now$|tempfile|NamedTempFile|getpid")


def r3_temp_names(ctx):
    rule = "C11.R3"
    ctx.rule(rule, "temp-then-rename routines reachable through shared access use a per-invocation temp name")
    prog = ctx.prog
    renames = [c for c in prog.all_calls(c06.RENAME.pattern, krates=["cascette_cache", "cascette_client_storage"])]
    ctx.floor(rule, len(renames), 3, "rename call sites")
    for r in renames:
        b = r.body
        if b.id in c06.CFG["not_state"]:
            continue
        ctx.saw(b)
        roots, sl = c06.path_roots(b, r.args[0])
        sl_all = Slice(b, [op_local(r.args[0])], transparent=True) if op_local(r.args[0]) is not None else None
        unique = bool(sl_all) and any(UNIQUE.search(x.name) for x in sl_all.calls)
        # the temp name belongs to ITS destination: a derivation that replaces the whole file name (with_file_name / set_file_name) without
        # re-using the destination's own name gives every destination in that directory one shared temp file
        if sl_all is not None:
            repl = [x for x in sl_all.calls if re.search(r"Path::with_file_name$|PathBuf::set_file_name$", x.name)]
            keeps = True
            for x in repl:
                a1 = op_local(x.args[1]) if len(x.args) > 1 else None
                s2 = Slice(b, [a1], transparent=True) if a1 is not None else None
                if not (s2 and any(re.search(r"Path::(file_name|file_stem)$", y.name) for y in s2.calls)):
                    keeps = False
            ctx.check(keeps, rule, [b.id, "temp-name-keeps-destination-name"], "the temp name contains its destination's file name",
                      "%s builds the temp path by replacing the destination's file name (with_file_name / set_file_name) with a name that does not contain it: "
                      "every entry stored in the same directory writes through ONE temp file, so concurrent puts of different keys truncate and rename each "
                      "other's data (a get returns another key's bytes, a put fails with ENOENT)" % ctx._stable(b.id), r.loc())
        # ... and to its destination's DIRECTORY: `<staging dir>.join(dest.file_name())` gives every destination with that last component -
        # keys that differ in an inner field (product, region, CDN path) - one shared temp file
        if sl_all is not None:
            flat = []
            for x in sl_all.calls:
                if not re.search(r"Path::join$|PathBuf::push$", x.name) or len(x.args) < 2 or op_local(x.args[1]) is None or op_local(x.args[0]) is None:
                    continue
                s_arg = Slice(b, [op_local(x.args[1])], transparent=True)
                if not any(re.search(r"Path::(file_name|file_stem)$", y.name) for y in s_arg.calls):
                    continue
                s_base = Slice(b, [op_local(x.args[0])], transparent=True)
                same_dir = any(re.search(r"Path::parent$", y.name) for y in s_base.calls) and bool(s_base.locals & s_arg.locals - {op_local(x.args[0]), op_local(x.args[1])})
                if not same_dir:
                    flat.append(x)
            ctx.check(not flat, rule, [b.id, "temp-name-keeps-destination-directory"], "the temp file lives in (or is named after) its destination's whole path",
                      "%s stages its temp file as <another directory>/<last component of the destination>: destinations in different directories whose last "
                      "component is equal (keys that differ only in an inner field) write through ONE temp file, so concurrent puts rename each other's bytes "
                      "into the wrong entry or fail with ENOENT" % ctx._stable(b.id), flat[0].loc() if flat else r.loc())
        shared, why = shared_access(prog, b)
        if not shared:
            ctx.ok(rule, [b.id, "exclusive"], "routine runs under exclusive access (%s)" % why, r.loc(), sample={"routine": b.id, "access": why})
            continue
        ctx.check(unique, rule, [b.id, "shared-temp-name"], "temp name has a per-invocation component",
                  "%s derives its temp path from the destination only (%s) and can run concurrently for the same destination (%s): two writers "
                  "truncate/write/rename the same temp file, so one rename fails (a put that lost no race errors out) or publishes the other "
                  "writer's half-written bytes" % (b.id, [x.name.split("::")[-1] for x in (sl_all.calls if sl_all else []) if c06.PATH_DERIVE.search(x.name)][:3], why),
                  r.loc(), sample={"routine": b.id, "access": why})


def shared_access(prog, b):
    root = prog.bodies.get(b.root) if b.root else b
    root = root or b
    if root.argc >= 1:
        t = root.local_ty(1)
        if re.match(r"&mut ", t) and root.self_ty and root.self_ty.split("<")[0].split("::")[-1] in t:
            return False, "&mut self"
        if t.startswith("&") and root.self_ty and root.self_ty.split("<")[0].split("::")[-1] in t:
            return True, "&self method"
    # associated fn without receiver: look one level up
    callers = [prog.bodies[s] for (s, how, c) in prog.callers.get(root.id, []) if s in prog.bodies and s != root.id]
    for cb in callers:
        cr = prog.bodies.get(cb.root) if cb.root else cb
        cr = cr or cb
        if cr.argc >= 1 and cr.local_ty(1).startswith("&") and not cr.local_ty(1).startswith("&mut"):
            return True, "called from &self method %s" % cr.id.split("::")[-1]
    if callers:
        return False, "all callers take &mut self"
    return True, "no receiver and no workspace caller (public entry)"


def r4_lock_discipline(ctx):
    rule = "C11.R4"
    ctx.rule(rule, "lock-order graph acyclic; no re-entrant acquisition; no sync guard across await")
    prog = ctx.prog
    LS = LockSummaries(prog, krates=LOCK_KRATES)
    edges = collections.defaultdict(dict)
    n_births = 0
    for b in sorted(prog.bodies.values(), key=lambda x: x.id):
        if b.krate not in LOCK_KRATES:
            continue
        at, births = held_analysis(b)
        if not births:
            continue
        ctx.saw(b)
        n_births += len(births)
        live = b.live_blocks()
        for c in b.calls:
            if c.bb not in live:
                continue
            held = at.get(c.bb)
            if not held:
                continue
            acq = LS.call_acquires(c)
            for h in held:
                if h.lock[1] == "?":
                    continue
                for (lock, mode, fam), (site, chain) in acq.items():
                    if lock[1] == "?":
                        continue
                    if lock == h.lock:
                        if mode != "excl" and h.mode != "excl" and (fam in FAIR_FAMILIES or h.family in FAIR_FAMILIES):
                            # parking_lot / tokio RwLocks queue readers behind a waiting writer: a second read() of a lock this task already
                            # read-holds blocks for ever as soon as a writer arrived in between (documented by both crates)
                            ctx.bad(rule, [b.id, "reentrant-read", "%s.%s" % (lock[0].split("::")[-1], lock[1]), c12.short(c.name)],
                                    "%s holds a read guard of %s.%s (taken at %s) while calling %s which read-locks it again (at %s): with a writer "
                                    "waiting in between (fair RwLock: %s) the second read blocks behind the writer, the writer behind the first read - deadlock" %
                                    (b.id, lock[0].split("::")[-1], lock[1], h.site, c.name, site, fam), c.loc())
                            continue
                        if mode == "excl" or h.mode == "excl":
                            ctx.bad(rule, [b.id, "reentrant", "%s.%s" % (lock[0].split("::")[-1], lock[1]), c12.short(c.name)],
                                    "%s holds %s.%s (%s, taken at %s) while calling %s which acquires it again (%s at %s): self-deadlock" %
                                    (b.id, lock[0].split("::")[-1], lock[1], h.mode, h.site, c.name, mode, site), c.loc())
                        continue
                    edges[h.lock].setdefault(lock, (b.id, c.loc(), site))
        # sync guard across await
        if b.coroutine:
            for y in [i for i in live if b.blocks[i]["t"]["k"] == "Yield"]:
                held = [h for h in at.get(y, ()) if h.family in SYNC_FAMILIES]
                t = b.blocks[y]["t"]
                loc = "%s:%d" % (b.file, t.get("l", 0))
                if held:
                    ctx.bad(rule, [b.id, "guard-across-await", "%s.%s" % (held[0].lock[0].split("::")[-1], held[0].lock[1])],
                            "%s awaits at %s while holding the synchronous %s guard of %s.%s taken at %s" % (b.id, loc, held[0].family, held[0].lock[0].split("::")[-1], held[0].lock[1], held[0].site), loc)
                else:
                    ctx.ok(rule, [b.id, "yield", y], "no sync guard across await", loc, nontrivial=False)
    ctx.floor(rule, n_births, 40, "lock acquisitions with tracked guards in cache/storage/protocol")
    # cycle detection
    color = {}
    cyc = []

    def dfs(u, stack):
        color[u] = 1
        for v in edges.get(u, {}):
            if color.get(v) == 1:
                cyc.append(stack[stack.index(v):] + [v] if v in stack else [u, v])
            elif color.get(v) is None:
                dfs(v, stack + [v])
        color[u] = 2
    for u in list(edges):
        if color.get(u) is None:
            dfs(u, [u])
    n_edges = sum(len(v) for v in edges.values())
    for (a, outs) in sorted(edges.items()):
        for bb_, (bid, loc, site) in sorted(outs.items()):
            ctx.ok(rule, ["order", "%s.%s" % (a[0].split("::")[-1], a[1]), "%s.%s" % (bb_[0].split("::")[-1], bb_[1])], "order edge", loc,
                   sample={"held": "%s.%s" % (a[0].split("::")[-1], a[1]), "then": "%s.%s" % (bb_[0].split("::")[-1], bb_[1]), "in": bid, "at": loc})
    for cy in cyc:
        names = ["%s.%s" % (x[0].split("::")[-1], x[1]) for x in cy]
        ctx.bad(rule, ["cycle"] + sorted(set(names)), "lock-order cycle %s: two tasks taking these locks in opposite order deadlock" % " -> ".join(names), None)
    ctx.info("lock-order graph: %d lock(s), %d edge(s), %d cycle(s)" % (len(edges), n_edges, len(cyc)))


def r5_atomic_rmw(ctx):
    rule = "C11.R5"
    ctx.rule(rule, "shared counters are only updated with atomic read-modify-write operations (no load ... store of the same atomic)")
    n = 0
    for b in sorted(ctx.prog.bodies.values(), key=lambda x: x.id):
        if b.krate not in LOCK_KRATES:
            continue
        stores = [c for c in b.calls if c.bb in b.live_blocks() and re.search(r"\bAtomic::<\w+>::store$", c.name) and not c.expn]
        for s in stores:
            n += 1
            ctx.saw(b)
            fs = recv_fields(b, s)
            if len(s.args) < 2 or op_local(s.args[1]) is None:
                ctx.ok(rule, [b.id, "store-const", s.bb], "stores a constant", s.loc(), nontrivial=False)
                continue
            sl = Slice(b, [op_local(s.args[1])], transparent=True)
            loads = [x for x in sl.calls if re.search(r"\bAtomic::<\w+>::load$", x.name) and (recv_fields(b, x) & fs)]
            ctx.check(not loads, rule, [b.id, "load-store", ".".join(sorted(f for f in fs if not f.startswith("upvar:self")))[:40]],
                      "stored value does not derive from a load of the same atomic",
                      "%s updates a shared counter with load() ... store(): two concurrent updates (even of different keys) lose one of them and "
                      "the reported usage no longer equals the real contents" % b.id, s.loc(),
                      sample={"in": b.id, "store": s.loc()})
    ctx.floor(rule, n, 6, "atomic stores inspected")


def r6_exclusive_alloc(ctx):
    rule = "C11.R6"
    ctx.rule(rule, "archive allocate-write-advance runs under exclusive access")
    for item in ("write_content", "write_content_with_mode"):
        bs = ctx.prog.find(self_ty=r"\bArchiveManager\b", item=item, closure=False)
        if not ctx.anchor(rule, bs, "ArchiveManager::%s" % item):
            continue
        b = bs[0]
        ctx.saw(b)
        t = b.local_ty(1)
        excl = t.startswith("&mut ")
        if not excl and item == "write_content_with_mode":
            # an exclusive guard of the position table spanning read-position .. insert
            at, births = held_analysis(b)
            ins = [m.call for m in map_ops(b, "write_positions") if m.op == "insert"]
            wr = b.calls_matching(r"ArchiveManager::write_to_archive$")
            excl = bool(ins) and bool(wr) and all(any(h.lock[1] == "write_positions" and h.mode == "excl" and h in at.get(wr[0].bb, ()) for h in at.get(i.bb, ())) for i in ins)
        ctx.check(excl, rule, [b.id, "exclusive"], "receiver is &mut self (or an exclusive guard spans the sequence)",
                  "ArchiveManager::%s takes `%s`: reading the write position, writing the bytes and advancing the position is no longer atomic, "
                  "so two concurrent writers get the same offset, overwrite each other and both index entries point at the same bytes" % (item, t),
                  b.loc(), sample={"method": b.id, "receiver": t})


def r7_stale_write_back(ctx):
    """read-copy-update without compare: a value looked up (and cloned) from the map under one guard / lock section and inserted
    back under another overwrites whatever a concurrent put or remove did in between"""
    rule = "C11.R7"
    ctx.rule(rule, "no map insert whose value derives from an earlier look at the same map whose guard / lock section has ended "
                   "(write-back of a snapshot): in-place updates go through get_mut / entry under one guard")
    n = 0
    for name, c in CACHE_FILES.items():
        for b in bodies_of(ctx, c):
            ins = [m for m in map_ops(b, c["map"]) if m.op == "insert"]
            if not ins:
                continue
            ctx.saw(b)
            at, births = held_analysis(b)
            looks = [x for x in b.calls if x.bb in b.live_blocks() and LOOK.search(x.name) and on_field(recv_fields(b, x), c["map"])]
            for m in ins:
                n += 1
                ctx.call_sites += 1
                r = m.call
                val = r.args[2] if len(r.args) > 2 else None
                stale = []
                if val is not None and op_local(val) is not None:
                    sl = Slice(b, [op_local(val)], transparent=True)
                    for lk in looks:
                        if lk.dest[0] in sl.locals and lk.bb != r.bb:
                            held_r = at.get(r.bb, frozenset())
                            held_l = at.get(lk.bb, frozenset())
                            same_section = any(h in held_l for h in held_r if h.lock[1] == c["map"])
                            if not same_section:
                                stale.append(lk)
                ctx.check(not stale, rule, [b.id, "snapshot-write-back"], "inserted value does not come from a released look at the same map",
                          "%s inserts into `%s` a value it read from the same map earlier (at %s) after that guard / lock section ended: a put_with_ttl or "
                          "remove that completed in between is overwritten by the old snapshot (resurrected entry, wrong TTL, usage counters off)" %
                          (ctx._stable(b.id), c["map"], stale[0].loc() if stale else ""), r.loc(), sample={"insert": r.loc(), "looks": [x.loc() for x in looks][:3]})
    ctx.floor(rule, n, 2, "map inserts in memory_cache.rs / disk_cache.rs")


PATH_STAT = re.compile(r"^std::fs::(metadata|symlink_metadata)$|^tokio::fs::(metadata|symlink_metadata)::\w+$|^std::path::Path::(metadata|symlink_metadata)$|^std::fs::DirEntry::metadata$")
EXACT_READ = re.compile(r"\bRead>?::read_exact$|AsyncReadExt>?::read_exact$|FileExt>?::read_exact_at$")


def r8_size_from_handle(ctx):
    """a file that other tasks replace by rename is read through ONE lookup of its name: the length that sizes an exact read comes
    from the open handle (File::metadata), never from a second, path-based stat - between the two lookups a rename can put a
    different file under the name"""
    rule = "C11.R8"
    ctx.rule(rule, "no read_exact whose buffer length derives from a path-based metadata() call (stat by name, then open by name)")
    n = 0
    for b in ctx.prog.bodies.values():
        if b.krate not in ("cascette_cache", "cascette_client_storage"):
            continue
        for c in b.calls:
            if c.bb not in b.live_blocks() or not (EXACT_READ.search(c.name) or EXACT_READ.search(c.orig_name or "")):
                continue
            if len(c.args) < 2 or op_local(c.args[1]) is None:
                continue
            n += 1
            ctx.call_sites += 1
            sl = Slice(b, [op_local(c.args[1])], transparent=True)
            stats = [x for x in sl.calls if PATH_STAT.search(x.name)]
            if stats:
                ctx.saw(b)
            ctx.check(not stats, rule, [b.id, "exact-read-sized-by-path-stat"], "exact read is not sized by a stat of the path",
                      "%s sizes a read_exact buffer from %s (a stat by path) and opens the file by path separately: when a concurrent put renames a new file "
                      "over the name in between, the reader gets the old length with the new contents - a torn value or a spurious UnexpectedEof that "
                      "drops a valid entry" % (ctx._stable(b.id), stats[0].name if stats else ""), c.loc())
    ctx.floor(rule, n, 6, "read_exact call sites in cascette-cache / cascette-client-storage")


def r9_decrement_follows_removal(ctx):
    """final counts agree with the contents: a counter goes down only for an entry this task actually took out. Every fetch_sub on the entry /
    byte counters sits on the Some edge of a removal from the map (or inside the closure of an atomic remove_if / retain): a decrement for a
    victim chosen from a snapshot, settled after the loop, also counts the victims another task removed first"""
    from .lib import result_local
    rule = "C11.R9"
    ctx.rule(rule, "every fetch_sub on a cache's entry / usage counter is dominated by the Some edge of a removal from the cache's map (or lies in a "
                   "remove_if / retain closure)")
    n = 0
    for name, c in CACHE_FILES.items():
        for b in bodies_of(ctx, c):
            subs = [(x, f, o) for (x, f, o) in counter_ops(b, [c["usage"], c["count"]]) if o == "fetch_sub"]
            if not subs:
                continue
            ctx.saw(b)
            in_closure = False
            if b.root and b.parent in ctx.prog.bodies:
                pb = ctx.prog.bodies[b.parent]
                for i, j, st in pb.stmts():
                    r = st["r"]
                    if r["k"] == "Agg" and r.get("body") == b.id:
                        from .lib import forward_calls
                        if any(re.search(r"::(remove_if|remove_if_mut|retain|retain_mut)$", x.name) for x in forward_calls(pb, st["p"][0])):
                            in_closure = True
            some_edges = set()
            for m in map_ops(b, c["map"]):
                if m.op in ("remove", "remove_entry", "remove_if", "insert"):
                    rl, _ = result_local(b, m.call)
                    for (some, none) in option_edges(b, rl):
                        some_edges.add(some)
            for (x, f, o) in subs:
                n += 1
                ctx.call_sites += 1
                ok = in_closure or any(b.dominates(e, x.bb) for e in some_edges)
                ctx.check(ok, rule, [b.id, "decrement-on-removal", f], "the decrement belongs to an entry this task removed",
                          "%s decrements `%s` on a path that is not the success edge of a removal from `%s` (for example once per candidate after the loop): "
                          "when another task removed the victim first, the entry is subtracted twice and size() / stats() drift below the real contents for good" %
                          (ctx._stable(b.id), f, c["map"]), x.loc())
    ctx.floor(rule, n, 8, "counter decrements in memory_cache.rs / disk_cache.rs")


MAP_REMOVE = re.compile(r"\bdashmap::DashMap::<K, V, S>::(remove|remove_if)$")
MAP_INSERT = re.compile(r"\bdashmap::DashMap::<K, V, S>::insert$")


def nonatomic_replacements(b):
    """(remove, insert) pairs on the same concurrent map with a key from the same source, the insert reachable from the remove"""
    out = []
    live = b.live_blocks()
    rms = [c for c in b.calls if MAP_REMOVE.search(c.name) and c.bb in live and len(c.args) >= 2]
    ins = [c for c in b.calls if MAP_INSERT.search(c.name) and c.bb in live and len(c.args) >= 2]
    for r in rms:
        rk = Slice(b, [op_local(r.args[1])], transparent=True) if op_local(r.args[1]) is not None else None
        for i in ins:
            if i.bb not in b.reachable_after(r.bb) or lock_id(b, r) != lock_id(b, i) or rk is None or op_local(i.args[1]) is None:
                continue
            ik = Slice(b, [op_local(i.args[1])], transparent=True)
            same = (rk.args & ik.args) or ({f for f in rk.fields if f and str(f[-1]).startswith("upvar:")} & {f for f in ik.fields if f and str(f[-1]).startswith("upvar:")})
            if same:
                out.append((r, i))
    return out


def r10_overwrite_is_one_operation(ctx):
    """DashMap::insert replaces a value atomically (and returns the old one for the books). remove(key) followed by insert(key, ..) opens a window in
    which a key that was put and never removed is absent: a concurrent get / contains misses, a concurrent remove reports false, and two such
    overwrites interleave into a double-counted entry"""
    rule = "C11.R10"
    ctx.rule(rule, "no function of the cache / storage crates removes a key from a concurrent map and then inserts the same key into the same map "
                   "(an overwrite is the single insert)")
    n = 0
    m = 0
    for b in sorted(ctx.prog.bodies.values(), key=lambda x: x.id):
        if b.krate not in LOCK_KRATES:
            continue
        if any(MAP_INSERT.search(c.name) for c in b.calls):
            n += 1
        for (r, i) in nonatomic_replacements(b):
            m += 1
            ctx.saw(b)
            ctx.bad(rule, [b.id, "remove-then-insert", "%s.%s" % (lock_id(b, r)[0].split("::")[-1], lock_id(b, r)[1])],
                    "%s overwrites a key of %s.%s by remove() at %s followed by insert() at %s: between the two the key is absent although no operation "
                    "removed it (a concurrent get misses, the books of two racing overwrites double-count)"
                    % (ctx._stable(b.id), lock_id(b, r)[0].split("::")[-1], lock_id(b, r)[1], r.loc(), i.loc()), i.loc())
    ctx.floor(rule, n, 3, "functions inserting into a concurrent map")
    if not m:
        ctx.ok(rule, ["all"], "%d inserting function(s), none preceded by a removal of the same key" % n, None, sample={"inserting_functions": n})


def run(ctx):
    r10_overwrite_is_one_operation(ctx)
    r9_decrement_follows_removal(ctx)
    r8_size_from_handle(ctx)
    r7_stale_write_back(ctx)
    r1_r2(ctx)
    r3_temp_names(ctx)
    r4_lock_discipline(ctx)
    r5_atomic_rmw(ctx)
    r6_exclusive_alloc(ctx)


from .selftest import for_families as _ff  # noqa: E402
selftest = _ff(['lock', 'publish'])
