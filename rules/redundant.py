"""E-count - a stored count that mirrors the length of a sibling collection stays in step with it.

Discovery: a statement `obj.<..>.C = obj.V.len() as _` (C an integer field, V a Vec field reached from the same object) establishes that C is kept as a
redundant copy of len(V) - the serialiser writes C in front of the V.len() records it then emits, and the parser reads C records back. Obligation: every
body that changes the length of V through a reference (push / retain / remove / clear / truncate / insert / extend / pop / drain / ... or assigns the
field) passes, on every path from that operation to its return, a write of C (directly, or through a callee that always does). Objects still under
construction (by-value locals) are exempt: whoever builds the struct literal sets both."""
import re
from .facts import op_local, place_fields

RESIZE = re.compile(r"\bVec::<T, A>::(push|retain|retain_mut|remove|swap_remove|clear|truncate|insert|extend\w*|append|pop|drain|dedup\w*|resize\w*|split_off)$|"
                    r"\bExtend<.*>>?::extend$")
LEN = re.compile(r"\bVec::<T, A>::len$|core::slice::<impl \[T\]>::len$")


def _adt_fields(place):
    """[(adt, field name)] of the field projections of a place, outermost first"""
    return [(e.get("a"), e["n"]) for e in place[1:] if isinstance(e, dict) and "f" in e]


def _ref_place(b, l, depth=0):
    """place a reference local was created from (`x = &mut p`, copies, deref / index_mut / as_mut on such a reference)"""
    if l is None or depth > 6:
        return None
    for (bb, idx, kind, payload) in b.defs.get(l, []):
        if kind == "assign":
            r = payload["r"]
            if r["k"] in ("Ref", "RawPtr"):
                p = r["p"]
                if len(p) == 2 and p[1] == "*":
                    return _ref_place(b, p[0], depth + 1) or p
                return p
            if r["k"] in ("Use", "Cast") and r["o"][0]["k"] in ("cp", "mv"):
                p = r["o"][0]["p"]
                if len(p) == 1:
                    return _ref_place(b, p[0], depth + 1)
                return p
        elif kind == "call":
            c = payload
            if re.search(r"\bDeref(Mut)?>?::deref(_mut)?$|\bAsMut<.*>>?::as_mut$|\bBorrowMut<.*>>?::borrow_mut$", c.name + " " + (c.orig_name or "")) and c.args:
                return _ref_place(b, op_local(c.args[0]), depth + 1)
    return None


def discover(prog, krates):
    """-> {(V adt, V field): {(C adt, C field), ...}} from `x.C = x.V.len() as _`"""
    rel = {}
    for b in prog.bodies.values():
        if b.krate not in krates or b.expn:
            continue
        for (i, j, st) in b.stmts():
            p = st["p"]
            cf = _adt_fields(p)
            if not cf or not isinstance(p[-1], dict) or "f" not in p[-1] or not re.match(r"^(u8|u16|u32|u64|usize)$", p[-1].get("t") or ""):
                continue
            if "*" not in p[1:]:
                continue        # a by-value local under construction
            r = st["r"]
            src = None
            if r["k"] in ("Use", "Cast") and op_local(r["o"][0]) is not None and len(r["o"][0]["p"]) == 1:
                src = op_local(r["o"][0])
            if src is None:
                continue
            # follow single-assignment casts back to a len() call
            cur, seen = src, set()
            call = None
            while cur is not None and cur not in seen:
                seen.add(cur)
                nxt = None
                for (bb, idx, kind, payload) in b.defs.get(cur, []):
                    if kind == "call" and LEN.search(payload.name):
                        call = payload
                    elif kind == "assign" and payload["r"]["k"] in ("Use", "Cast") and op_local(payload["r"]["o"][0]) is not None and len(payload["r"]["o"][0]["p"]) == 1:
                        nxt = op_local(payload["r"]["o"][0])
                cur = nxt if call is None else None
            if call is None or not call.args:
                continue
            vp = _ref_place(b, op_local(call.args[0]))
            if not vp:
                continue
            vf = _adt_fields(vp)
            if not vf or vp[0] != p[0]:
                continue        # not the same object
            rel.setdefault(vf[-1], set()).add(cf[-1])
    return rel


def count_writers(prog, krates, cfield):
    """bodies that write the count field through a reference, and summaries 'always writes it before returning'"""
    out = {}
    for b in prog.bodies.values():
        if b.krate not in krates:
            continue
        blks = {i for (i, j, st) in b.stmts() if _adt_fields(st["p"])[-1:] == [cfield] and "*" in st["p"][1:]}
        if blks:
            out[b.id] = blks
    return out


def rule_counts(ctx, rule, krates, file_pat=None, floor=0):
    ctx.rule(rule, "a count field that some body assigns from the length of a sibling Vec (by discovery) is re-written on every path after each operation that changes that Vec's length")
    prog = ctx.prog
    rel = discover(prog, krates)
    n = 0
    for (vadt, vname), cfields in sorted(rel.items(), key=lambda kv: str(kv[0])):
        for cfield in sorted(cfields, key=str):
            writers = count_writers(prog, krates, cfield)
            always = set()
            for bid, blks in writers.items():
                wb = prog.bodies[bid]
                if not (wb.reachable([0], avoid=blks) & set(wb.return_blocks())):
                    always.add(bid)
            for b in sorted(prog.bodies.values(), key=lambda x: x.id):
                if b.krate not in krates or b.expn or (file_pat and not re.search(file_pat, b.file or "")):
                    continue
                live = b.live_blocks()
                ops = []
                for c in b.calls:
                    if c.bb not in live or not c.args or not (RESIZE.search(c.name) or RESIZE.search(c.orig_name or "")):
                        continue
                    vp = _ref_place(b, op_local(c.args[0]))
                    if vp and _adt_fields(vp)[-1:] == [(vadt, vname)] and "*" in vp[1:]:
                        ops.append((c.bb, c.loc(), c.name.split("::")[-1]))
                for (i, j, st) in b.stmts():
                    if i in live and _adt_fields(st["p"])[-1:] == [(vadt, vname)] and "*" in st["p"][1:] and isinstance(st["p"][-1], dict) and st["p"][-1].get("n") == vname:
                        ops.append((i, "%s:%d" % (b.file, st.get("l", 0)), "assignment"))
                if not ops:
                    continue
                cover = set(writers.get(b.id, set())) | {c.bb for c in b.calls if c.id in always and c.bb in live}
                rets = set(b.return_blocks())
                # `if v.len() < len_before { count = v.len() }`: a branch that compares the collection's length with its own earlier length and
                # re-writes the count on one side has nothing to do on the other (the length did not change)
                from .lib import bool_switches
                from .facts import Slice
                for (i, j, st) in b.stmts():
                    r = st["r"]
                    if r["k"] != "Bin" or r["op"] not in ("Lt", "Gt", "Ne", "Eq", "Le", "Ge") or len(st["p"]) != 1:
                        continue
                    both = True
                    for o in r["o"]:
                        l = op_local(o)
                        if l is None:
                            both = False
                            break
                        sl = Slice(b, [l], transparent=None)
                        lens = [c for c in sl.calls if LEN.search(c.name) and c.args]
                        if not lens or not all((_adt_fields(_ref_place(b, op_local(c.args[0])) or [0])[-1:] == [(vadt, vname)]) for c in lens):
                            both = False
                    if not both:
                        continue
                    for (sbb, tt, ft) in bool_switches(b, st["p"][0]):
                        if any(not (b.reachable([s_], avoid=cover) & rets) for s_ in (tt, ft)):
                            cover.add(sbb)
                for (bb, loc, what) in ops:
                    n += 1
                    ctx.saw(b)
                    ok = bb in cover or not (b.reachable(b.succ[bb], avoid=cover) & rets)
                    ctx.check(ok, rule, [b.id, "%s.%s" % (vadt.split("::")[-1], vname), what, "count-follows"],
                              "%s.%s is re-written after %s" % (cfield[0].split("::")[-1], cfield[1], what),
                              "%s changes the length of %s.%s (%s) and can return without re-writing %s.%s, which another body keeps equal to that length: the "
                              "serialiser emits the stale count in front of the records actually present, so the bytes it builds do not parse back to the same "
                              "content (the parser reads as many records as the count says)" %
                              (ctx._stable(b.id), vadt.split("::")[-1], vname, what, cfield[0].split("::")[-1], cfield[1]), loc,
                              sample={"collection": "%s.%s" % (vadt, vname), "count": "%s.%s" % cfield, "op": what})
    if floor:
        ctx.floor(rule, n, floor, "length-changing operations on collections with a mirrored count")
    return n
