// astx: syn-based AST fact extractor for the two places where the wanted fact lives inside macro input
// (format! templates and their arguments, string-literal tables). Usage: astx <file.rs>...  -> JSON lines on stdout.
use proc_macro2::TokenTree;
use quote::ToTokens;
use syn::visit::Visit;

fn esc(s: &str) -> String {
    let mut o = String::from("\"");
    for c in s.chars() {
        match c {
            '"' => o.push_str("\\\""),
            '\\' => o.push_str("\\\\"),
            '\n' => o.push_str("\\n"),
            '\r' => o.push_str("\\r"),
            '\t' => o.push_str("\\t"),
            c if (c as u32) < 0x20 => o.push_str(&format!("\\u{:04x}", c as u32)),
            c => o.push(c),
        }
    }
    o.push('"');
    o
}

struct V {
    file: String,
    impl_ty: Vec<String>,
    fn_name: Vec<String>,
    in_test: u32,
    out: Vec<String>,
}

fn has_cfg_test(attrs: &[syn::Attribute]) -> bool {
    attrs.iter().any(|a| {
        a.path().is_ident("cfg") && a.meta.to_token_stream().to_string().contains("test")
            || a.path().is_ident("test")
    })
}

impl V {
    fn ctx(&self) -> String {
        format!(
            "\"file\":{},\"impl\":{},\"fn\":{}",
            esc(&self.file),
            esc(self.impl_ty.last().map(String::as_str).unwrap_or("")),
            esc(self.fn_name.last().map(String::as_str).unwrap_or(""))
        )
    }
}

impl<'ast> Visit<'ast> for V {
    fn visit_attribute(&mut self, _a: &'ast syn::Attribute) {}
    fn visit_item_mod(&mut self, i: &'ast syn::ItemMod) {
        let t = has_cfg_test(&i.attrs);
        if t {
            self.in_test += 1;
        }
        syn::visit::visit_item_mod(self, i);
        if t {
            self.in_test -= 1;
        }
    }
    fn visit_item_impl(&mut self, i: &'ast syn::ItemImpl) {
        self.impl_ty.push(i.self_ty.to_token_stream().to_string().replace(' ', ""));
        syn::visit::visit_item_impl(self, i);
        self.impl_ty.pop();
    }
    fn visit_impl_item_fn(&mut self, i: &'ast syn::ImplItemFn) {
        let t = has_cfg_test(&i.attrs);
        if t {
            self.in_test += 1;
        }
        self.fn_name.push(i.sig.ident.to_string());
        syn::visit::visit_impl_item_fn(self, i);
        self.fn_name.pop();
        if t {
            self.in_test -= 1;
        }
    }
    fn visit_item_fn(&mut self, i: &'ast syn::ItemFn) {
        let t = has_cfg_test(&i.attrs);
        if t {
            self.in_test += 1;
        }
        self.fn_name.push(i.sig.ident.to_string());
        syn::visit::visit_item_fn(self, i);
        self.fn_name.pop();
        if t {
            self.in_test -= 1;
        }
    }
    fn visit_local(&mut self, l: &'ast syn::Local) {
        if self.in_test == 0 {
            if let syn::Pat::Ident(pi) = &l.pat {
                if let Some(init) = &l.init {
                    self.out.push(format!(
                        "{{\"rec\":\"let\",{},\"line\":{},\"name\":{},\"init\":{}}}",
                        self.ctx(),
                        pi.ident.span().start().line,
                        esc(&pi.ident.to_string()),
                        esc(&init.expr.to_token_stream().to_string())
                    ));
                }
            }
        }
        syn::visit::visit_local(self, l);
    }
    fn visit_expr_lit(&mut self, e: &'ast syn::ExprLit) {
        if self.in_test == 0 {
            if let syn::Lit::Str(s) = &e.lit {
                self.out.push(format!(
                    "{{\"rec\":\"str\",{},\"line\":{},\"value\":{}}}",
                    self.ctx(),
                    s.span().start().line,
                    esc(&s.value())
                ));
            }
        }
        syn::visit::visit_expr_lit(self, e);
    }
    fn visit_macro(&mut self, m: &'ast syn::Macro) {
        if self.in_test == 0 {
            let name = m.path.segments.last().map(|s| s.ident.to_string()).unwrap_or_default();
            // split top-level arguments at commas
            let mut args: Vec<String> = Vec::new();
            let mut cur = proc_macro2::TokenStream::new();
            let mut first_lit: Option<String> = None;
            let mut lit_index: Option<usize> = None;
            for tt in m.tokens.clone() {
                match &tt {
                    TokenTree::Punct(p) if p.as_char() == ',' => {
                        args.push(cur.to_string());
                        cur = proc_macro2::TokenStream::new();
                    }
                    _ => cur.extend(std::iter::once(tt.clone())),
                }
            }
            if !cur.is_empty() {
                args.push(cur.to_string());
            }
            for (i, a) in args.iter().enumerate() {
                if let Ok(l) = syn::parse_str::<syn::LitStr>(a) {
                    first_lit = Some(l.value());
                    lit_index = Some(i);
                    break;
                }
                if i >= 1 {
                    break;
                }
            }
            let line = m.path.segments.first().map(|s| s.ident.span().start().line).unwrap_or(0);
            let mut s = format!("{{\"rec\":\"macro\",{},\"line\":{},\"name\":{}", self.ctx(), line, esc(&name));
            if let (Some(t), Some(li)) = (first_lit, lit_index) {
                s.push_str(&format!(",\"template\":{},\"args\":[", esc(&t)));
                for (k, a) in args.iter().skip(li + 1).enumerate() {
                    if k > 0 {
                        s.push(',');
                    }
                    s.push_str(&esc(a));
                }
                s.push(']');
            }
            s.push('}');
            self.out.push(s);
            // nested macros inside the arguments (e.g. lines.push(format!(..)) is an expr, not nested; vec![format!()] is)
            if let Ok(exprs) = m.parse_body_with(syn::punctuated::Punctuated::<syn::Expr, syn::Token![,]>::parse_terminated) {
                for e in exprs.iter() {
                    self.visit_expr(e);
                }
            }
        }
        syn::visit::visit_macro(self, m);
    }
}

fn main() {
    for path in std::env::args().skip(1) {
        let src = match std::fs::read_to_string(&path) {
            Ok(s) => s,
            Err(e) => {
                eprintln!("astx: cannot read {}: {}", path, e);
                std::process::exit(2);
            }
        };
        let file = match syn::parse_file(&src) {
            Ok(f) => f,
            Err(e) => {
                eprintln!("astx: cannot parse {}: {}", path, e);
                std::process::exit(2);
            }
        };
        let mut v = V { file: path.clone(), impl_ty: vec![], fn_name: vec![], in_test: 0, out: vec![] };
        v.visit_file(&file);
        for l in v.out {
            println!("{}", l);
        }
    }
}
